"""Single source of truth for the Kani harness instantiations.

Every entry is one solver query: a `#[kani::proof]` function generated into
/verif/harness/src/gen.rs that calls a generic check body from the harness crate with
concrete type / shape parameters.  `run_check.py` reads the same table to know which
harnesses decide which property, in which tier, under which cap, and what they encode
(functions, bounds, stubs) so that the evidence is written from the table + the solver logs.
"""

STUB_ATTR = {
    # S1: Vec::with_capacity(c) -> Vec::new() + reserve_exact(8)
    "S1": "#[kani::stub(std::vec::Vec::with_capacity, crate::stubs::vec_with_capacity)]",
    # S2: format!() on panic / println paths -> empty String
    "S2": "#[kani::stub(std::fmt::format, crate::stubs::fmt_format)]",
}
STUB_TEXT = {
    "S1": "Vec::with_capacity(c) replaced by Vec::new()+reserve_exact(8) (capacity unobservable)",
    "S2": "alloc::fmt::format replaced by an empty String (panic/println message text is not the subject)",
}


class H:
    def __init__(self, name, props, call, unwind=None, tier="quick", cap=180, mem=8,
                 stubs=(), funcs=(), bounds="", group=""):
        self.name = name
        self.props = list(props)
        self.call = call
        self.unwind = unwind
        self.tier = tier          # "quick": run in both tiers; "thorough": thorough only
        self.cap = cap            # seconds, quick-tier cap (thorough multiplies)
        self.mem = mem            # GB address-space cap for cbmc
        self.stubs = list(stubs)
        self.funcs = list(funcs)
        self.bounds = bounds
        self.group = group or name.split("__")[0]

    def rust(self):
        out = ["#[kani::proof]"]
        if self.unwind is not None:
            out.append("#[kani::unwind(%d)]" % self.unwind)
        for s in self.stubs:
            out.append(STUB_ATTR[s])
        out.append("pub fn %s() { %s }" % (self.name, self.call))
        return "\n".join(out)


# ---------------------------------------------------------------------------------------
# k-mer types: (tag, rust type, K, storage bits, in quick core?)
KT = [
    ("kmer2", "debruijn::kmer::Kmer2", 2, 8, False),
    ("kmer3", "debruijn::kmer::Kmer3", 3, 8, True),
    ("kmer4", "debruijn::kmer::Kmer4", 4, 8, True),
    ("kmer5", "debruijn::kmer::Kmer5", 5, 16, False),
    ("kmer6", "debruijn::kmer::Kmer6", 6, 16, True),
    ("kmer8", "debruijn::kmer::Kmer8", 8, 16, True),
    ("kmer10", "debruijn::kmer::Kmer10", 10, 32, False),
    ("kmer12", "debruijn::kmer::Kmer12", 12, 32, False),
    ("kmer14", "debruijn::kmer::Kmer14", 14, 32, False),
    ("kmer15", "debruijn::kmer::Kmer15", 15, 32, True),
    ("kmer16", "debruijn::kmer::Kmer16", 16, 32, True),
    ("kmer20", "debruijn::kmer::Kmer20", 20, 64, False),
    ("kmer24", "debruijn::kmer::Kmer24", 24, 64, False),
    ("kmer30", "debruijn::kmer::Kmer30", 30, 64, False),
    ("kmer31", "crate::common::Kmer31", 31, 64, True),
    ("kmer32", "debruijn::kmer::Kmer32", 32, 64, True),
    ("kmer40", "debruijn::kmer::Kmer40", 40, 128, False),
    ("kmer48", "debruijn::kmer::Kmer48", 48, 128, True),
    ("kmer64", "debruijn::kmer::Kmer64", 64, 128, True),
    # VarIntKmer<u8,K4>: a partial-width type whose K fills the word (unused_bits == 0 corner)
    ("kmer4v", "crate::common::Kmer4V", 4, 8, True),
]
KT_BY_TAG = {t[0]: t for t in KT}


def kmer_harnesses():
    hs = []
    for tag, ty, k, bits, core in KT:
        tier = "quick"  # all k-mer queries are cheap enough for the quick tier
        all_vals = "all 4^%d values of the %d-bit storage word" % (k, bits)
        hs.append(H("c10_get__" + tag, ["C10", "C11"], "crate::kmer_ops::get::<%s>()" % ty,
                    tier=tier, funcs=["Mer::get", "Mer::len", "Mer::is_empty", "Kmer::empty"],
                    bounds=all_vals + ", all positions"))
        hs.append(H("c10_set__" + tag, ["C10", "C11"], "crate::kmer_ops::set::<%s>()" % ty,
                    tier=tier, funcs=["Mer::set_mut", "MerImmut::set"],
                    bounds=all_vals + ", all positions i,j, all bases"))
        hs.append(H("c10_set_slice__" + tag, ["C10", "C11"],
                    "crate::kmer_ops::set_slice::<%s>()" % ty, tier=tier,
                    funcs=["Mer::set_slice_mut", "MerImmut::set_slice", "top_mask", "bottom_mask"],
                    bounds=all_vals + ", all pos, all n in 1..=min(32,K-pos), all 2^64 values"))
        hs.append(H("c10_extend__" + tag, ["C10", "C11"], "crate::kmer_ops::extend::<%s>()" % ty,
                    tier=tier, funcs=["Kmer::extend_left", "Kmer::extend_right", "Kmer::extend"],
                    bounds=all_vals + ", all bases, all positions"))
        hs.append(H("c10_rc__" + tag, ["C10", "C11", "C12"], "crate::kmer_ops::rc::<%s>()" % ty,
                    tier=tier, funcs=["Mer::rc", "IntHelp::reverse_by_twos"],
                    bounds=all_vals + ", all positions"))
        hs.append(H("c12_canon__" + tag, ["C12", "C11"], "crate::kmer_ops::canon::<%s>()" % ty,
                    tier=tier,
                    funcs=["Kmer::min_rc", "Kmer::min_rc_flip", "Kmer::is_palindrome", "Mer::rc"],
                    bounds=all_vals))
        hs.append(H("c10_rank__" + tag, ["C10", "C11"], "crate::kmer_ops::rank::<%s>()" % ty,
                    tier=tier, funcs=["Kmer::from_u64", "Kmer::to_u64"],
                    bounds="all ranks < 4^min(K,32); to_u64 only for K<=32 (documented)"))
        n = k + 2
        hs.append(H("c10_from_bytes__" + tag, ["C10", "C11"],
                    "crate::kmer_ops::from_bytes::<%s, %d>()" % (ty, n), unwind=k + 3, tier=tier,
                    funcs=["Kmer::from_bytes"],
                    bounds="all inputs of length K..K+2 with bytes < 4"))
        hs.append(H("c10_from_ascii__" + tag, ["C10", "C11", "C16"],
                    "crate::kmer_ops::from_ascii::<%s, %d>()" % (ty, n), unwind=k + 3, tier=tier,
                    funcs=["Kmer::from_ascii", "base_to_bits"],
                    bounds="all inputs of length K..K+2, all 256 byte values in every position"))
        hs.append(H("c10_hamming__" + tag, ["C10"], "crate::kmer_ops::hamming::<%s>()" % ty,
                    unwind=k + 2, tier=tier, funcs=["Kmer::hamming_dist"],
                    bounds="all pairs of values"))
        hs.append(H("c10_counts__" + tag, ["C10"], "crate::kmer_ops::counts::<%s>()" % ty,
                    unwind=k + 2, tier=tier, funcs=["Mer::at_count", "Mer::gc_count"],
                    bounds=all_vals))
        hs.append(H("c10_mer_iter__" + tag, ["C10"], "crate::kmer_ops::mer_iter::<%s>()" % ty,
                    unwind=k + 2, tier=tier, funcs=["Mer::iter", "MerIter::next"], bounds=all_vals))
        hs.append(H("c11_eq_ord__" + tag, ["C11"], "crate::kmer_ops::eq_ord::<%s>()" % ty,
                    unwind=k + 2, tier=tier,
                    funcs=["PartialEq::eq", "Ord::cmp", "PartialOrd::partial_cmp", "lt", "ge"],
                    bounds="all pairs of values"))
        hs.append(H("c11_hash__" + tag, ["C11"], "crate::kmer_ops::hash::<%s>()" % ty,
                    unwind=max(k, 16) + 3, tier=tier, funcs=["Hash::hash"],
                    bounds="all pairs of values; recording Hasher"))
        # heap-backed renderings: small K only (String::push of a symbolic char makes the
        # string length symbolic; cost grows steeply with K)
        if k <= 4:
            hs.append(H("c10_to_string__" + tag, ["C10"],
                        "crate::kmer_ops::to_string::<%s>()" % ty, unwind=k + 3,
                        tier="quick" if k <= 3 else "thorough", cap=300, stubs=["S1"],
                        funcs=["Kmer::to_string", "bits_to_base"], bounds=all_vals))
        if tag in ("kmer3", "kmer5", "kmer32", "kmer64"):
            hs.append(H("c10_get_extensions__" + tag, ["C10"],
                        "crate::kmer_ops::get_extensions::<%s>()" % ty, unwind=8,
                        tier="quick" if tag in ("kmer3", "kmer64") else "thorough", cap=300,
                        stubs=["S1"], funcs=["Kmer::get_extensions", "Exts::get"],
                        bounds=all_vals + ", all 256 extension sets, both directions"))
    return hs


def all_harnesses():
    hs = []
    hs += kmer_harnesses()
    names = set()
    for h in hs:
        assert h.name not in names, h.name
        names.add(h.name)
    return hs


PROPERTY_TEXT = {
    "C10": "Packed k-mers behave as length-K strings",
    "C11": "K-mer equality, order and hash are those of the string",
    "C12": "Reverse complement is coherent across all sequence types",
}


def gen_rs():
    out = ["// @generated by /verif/tools/spec.py — do not edit.",
           "#![allow(non_snake_case)]", ""]
    for h in all_harnesses():
        out.append(h.rust())
        out.append("")
    return "\n".join(out)


if __name__ == "__main__":
    import sys
    sys.stdout.write(gen_rs())
