"""Single source of truth for the Kani harness instantiations.

Every entry is one solver query: a `#[kani::proof]` function generated into
/verif/harness/src/gen.rs that calls a generic check body from the harness crate with
concrete type / shape parameters.  `run_check.py` reads the same table to know which
harnesses decide which property, in which tier, under which cap, and what they encode
(functions, bounds, stubs) so that the evidence is written from the table + the solver logs.
"""

STUB_ATTR = {
    # S1: Vec::with_capacity(c) -> Vec::new() + reserve_exact(8)
    "S1": "#[kani::stub(std::vec::Vec::with_capacity, crate::stubs::vec_with_capacity)]",
    # S2: format!() on panic / println paths -> empty String
    "S2": "#[kani::stub(std::fmt::format, crate::stubs::fmt_format)]",
}
STUB_ATTR["S4"] = "#[kani::stub(core::fmt::Formatter::pad, crate::stubs::fmt_pad)]"
STUB_ATTR["S5"] = "#[kani::stub(std::string::String::push, crate::stubs::string_push_ascii)]"
STUB_ATTR["S6"] = "#[kani::stub(std::collections::VecDeque::grow, crate::stubs::vecdeque_grow)]"
STUB_ATTR["S7"] = "#[kani::stub(smallvec::SmallVec::reserve_one_unchecked, crate::stubs::smallvec_reserve_one)]"
STUB_ATTR["S8"] = "#[kani::stub(<usize as core::fmt::Display>::fmt, crate::stubs::fmt_usize)]"
STUB_ATTR["S4b"] = "#[kani::stub(core::fmt::Formatter::pad, crate::stubs::fmt_pad_split)]"
STUB_ATTR["S3a"] = "#[kani::stub(std_detect::detect::arch::x86::__is_feature_detected::avx2, crate::ascii_ops::avx2_no)]"
STUB_ATTR["S3b"] = ("#[kani::stub(std_detect::detect::arch::x86::__is_feature_detected::avx2, crate::ascii_ops::avx2_yes)]\n"
                    "#[kani::stub(debruijn::bitops_avx2::convert_bases, crate::ascii_ops::kernel_spec::convert_bases)]\n"
                    "#[kani::stub(debruijn::bitops_avx2::pack_32_bases, crate::ascii_ops::kernel_spec::pack_32_bases)]")
STUB_TEXT = {
    "S4b": "core::fmt::Formatter::pad(s) replaced by a byte-by-byte write of concrete one-byte literals chosen by a case split over ACGT+-LR (length <= 8 and membership asserted inside the stub; exact for `{}` without width/precision)",
    "S8": "<usize as Display>::fmt replaced by a one-digit renderer (a concrete literal per case) with `value < 8` asserted inside the stub (exact for `{}` without flags/width whenever the harness verifies; the real one divides a symbolic 64-bit value in a loop)",
    "S7": "SmallVec::reserve_one_unchecked (heap spill) replaced by an asserted-unreachable stub (edge lists hold <= 4 entries = the inline capacity)",
    "S6": "VecDeque::grow replaced by an asserted-unreachable stub (the scratch deque handed to the hook is pre-reserved beyond every reachable length; capacity is unobservable)",
    "S5": "String::push(c) replaced by a one-byte push with `c` is ASCII asserted inside the stub (exact whenever the harness verifies)",
    "S3a": "x86 feature detection replaced by `false` (scalar path of from_acgt_bytes)",
    "S3b": "x86 feature detection replaced by `true` and the two AVX2 kernels replaced by their scalar specification (proved equal to the real kernels for all 256^32 blocks by the mirsmt queries)",
    "S4": "core::fmt::Formatter::pad(s) replaced by write_str(s) (exact for '{}' without width/precision)",
    "S1": "Vec::with_capacity(c) replaced by Vec::new()+reserve_exact(8) (capacity unobservable)",
    "S2": "alloc::fmt::format replaced by an empty String (panic/println message text is not the subject)",
}


class H:
    def __init__(self, name, props, call, unwind=None, tier="quick", cap=180, mem=3,
                 stubs=(), funcs=(), bounds="", group="", cbmc_args="", ofmt="terse"):
        self.name = name
        self.props = list(props)
        self.call = call
        self.unwind = unwind
        self.tier = tier          # "quick": run in both tiers; "thorough": thorough only
        self.cap = cap            # seconds, quick-tier cap (thorough multiplies)
        self.mem = mem            # GB of RAM the scheduler reserves for this query (admission control)
        self.stubs = list(stubs)
        self.funcs = list(funcs)
        self.bounds = bounds
        self.group = group or name.split("__")[0]
        self.ofmt = ofmt  # kani --output-format: "terse" (Kani's parsed results) or "old" (CBMC's plain list; no JSON traces, much lighter)
        self.cbmc_args = cbmc_args  # extra CBMC flags (per-loop unwinding bounds), passed after --cbmc-args

    def rust(self):
        out = ["#[kani::proof]"]
        if self.unwind is not None:
            out.append("#[kani::unwind(%d)]" % self.unwind)
        for s in self.stubs:
            out.append(STUB_ATTR[s])
        out.append("pub fn %s() { %s }" % (self.name, self.call))
        return "\n".join(out)


# ---------------------------------------------------------------------------------------
# k-mer types: (tag, rust type, K, storage bits, in quick core?)
KT = [
    ("kmer2", "debruijn::kmer::Kmer2", 2, 8, False),
    ("kmer3", "debruijn::kmer::Kmer3", 3, 8, True),
    ("kmer4", "debruijn::kmer::Kmer4", 4, 8, True),
    ("kmer5", "debruijn::kmer::Kmer5", 5, 16, False),
    ("kmer6", "debruijn::kmer::Kmer6", 6, 16, True),
    ("kmer8", "debruijn::kmer::Kmer8", 8, 16, True),
    ("kmer10", "debruijn::kmer::Kmer10", 10, 32, False),
    ("kmer12", "debruijn::kmer::Kmer12", 12, 32, False),
    ("kmer14", "debruijn::kmer::Kmer14", 14, 32, False),
    ("kmer15", "debruijn::kmer::Kmer15", 15, 32, True),
    ("kmer16", "debruijn::kmer::Kmer16", 16, 32, True),
    ("kmer20", "debruijn::kmer::Kmer20", 20, 64, False),
    ("kmer24", "debruijn::kmer::Kmer24", 24, 64, False),
    ("kmer30", "debruijn::kmer::Kmer30", 30, 64, False),
    ("kmer31", "crate::common::Kmer31", 31, 64, True),
    ("kmer32", "debruijn::kmer::Kmer32", 32, 64, True),
    ("kmer40", "debruijn::kmer::Kmer40", 40, 128, False),
    ("kmer48", "debruijn::kmer::Kmer48", 48, 128, True),
    ("kmer64", "debruijn::kmer::Kmer64", 64, 128, True),
    # VarIntKmer<u8,K4>: a partial-width type whose K fills the word (unused_bits == 0 corner)
    ("kmer4v", "crate::common::Kmer4V", 4, 8, True),
]
KT_BY_TAG = {t[0]: t for t in KT}


def kmer_harnesses():
    hs = []
    for tag, ty, k, bits, core in KT:
        tier = "quick"  # all k-mer queries are cheap enough for the quick tier
        all_vals = "all 4^%d values of the %d-bit storage word" % (k, bits)
        hs.append(H("c10_get__" + tag, ["C10", "C11"], "crate::kmer_ops::get::<%s>()" % ty,
                    tier=tier, funcs=["Mer::get", "Mer::len", "Mer::is_empty", "Kmer::empty"],
                    bounds=all_vals + ", all positions"))
        hs.append(H("c10_set__" + tag, ["C10", "C11"], "crate::kmer_ops::set::<%s>()" % ty,
                    tier=tier, funcs=["Mer::set_mut", "MerImmut::set"],
                    bounds=all_vals + ", all positions i,j, all bases"))
        hs.append(H("c10_set_slice__" + tag, ["C10", "C11"],
                    "crate::kmer_ops::set_slice::<%s>()" % ty, tier=tier,
                    funcs=["Mer::set_slice_mut", "MerImmut::set_slice", "top_mask", "bottom_mask"],
                    bounds=all_vals + ", all pos, all n in 1..=min(32,K-pos), all 2^64 values"))
        hs.append(H("c10_extend__" + tag, ["C10", "C11"], "crate::kmer_ops::extend::<%s>()" % ty,
                    tier=tier, funcs=["Kmer::extend_left", "Kmer::extend_right", "Kmer::extend"],
                    bounds=all_vals + ", all bases, all positions"))
        hs.append(H("c10_rc__" + tag, ["C10", "C11", "C12"], "crate::kmer_ops::rc::<%s>()" % ty,
                    tier=tier, funcs=["Mer::rc", "IntHelp::reverse_by_twos"],
                    bounds=all_vals + ", all positions"))
        hs.append(H("c12_canon__" + tag, ["C12", "C11"], "crate::kmer_ops::canon::<%s>()" % ty,
                    tier=tier,
                    funcs=["Kmer::min_rc", "Kmer::min_rc_flip", "Kmer::is_palindrome", "Mer::rc"],
                    bounds=all_vals))
        hs.append(H("c10_rank__" + tag, ["C10", "C11"], "crate::kmer_ops::rank::<%s>()" % ty,
                    tier=tier, funcs=["Kmer::from_u64", "Kmer::to_u64"],
                    bounds="all ranks < 4^min(K,32); to_u64 only for K<=32 (documented)"))
        n = k + 2
        hs.append(H("c10_from_bytes__" + tag, ["C10", "C11"],
                    "crate::kmer_ops::from_bytes::<%s, %d>()" % (ty, n), unwind=k + 3, tier=tier,
                    funcs=["Kmer::from_bytes"],
                    bounds="all inputs of length K..K+2 with bytes < 4"))
        hs.append(H("c10_from_ascii__" + tag, ["C10", "C11", "C16"],
                    "crate::kmer_ops::from_ascii::<%s, %d>()" % (ty, n), unwind=k + 3, tier=tier,
                    funcs=["Kmer::from_ascii", "base_to_bits"],
                    bounds="all inputs of length K..K+2, all 256 byte values in every position"))
        hs.append(H("c10_hamming__" + tag, ["C10"], "crate::kmer_ops::hamming::<%s>()" % ty,
                    unwind=k + 2, tier=tier, funcs=["Kmer::hamming_dist"],
                    bounds="all pairs of values"))
        hs.append(H("c10_counts__" + tag, ["C10"], "crate::kmer_ops::counts::<%s>()" % ty,
                    unwind=k + 2, tier=tier, funcs=["Mer::at_count", "Mer::gc_count"],
                    bounds=all_vals))
        hs.append(H("c10_mer_iter__" + tag, ["C10"], "crate::kmer_ops::mer_iter::<%s>()" % ty,
                    unwind=k + 2, tier=tier, funcs=["Mer::iter", "MerIter::next"], bounds=all_vals))
        hs.append(H("c11_eq_ord__" + tag, ["C11"], "crate::kmer_ops::eq_ord::<%s>()" % ty,
                    unwind=k + 2, tier=tier,
                    funcs=["PartialEq::eq", "Ord::cmp", "PartialOrd::partial_cmp", "lt", "ge"],
                    bounds="all pairs of values"))
        hs.append(H("c11_hash__" + tag, ["C11"], "crate::kmer_ops::hash::<%s>()" % ty,
                    unwind=66, tier=tier, funcs=["Hash::hash"],
                    bounds="all pairs of values; recording Hasher"))
        # heap-backed renderings: small K only (String::push of a symbolic char makes the
        # string length symbolic; cost grows steeply with K)
        if k <= 4:
            hs.append(H("c10_to_string__" + tag, ["C10"],
                        "crate::kmer_ops::to_string::<%s>()" % ty, unwind=k + 3,
                        tier="quick" if k <= 3 else "thorough", cap=300, stubs=["S1"],
                        funcs=["Kmer::to_string", "bits_to_base"], bounds=all_vals))
        if tag in ("kmer3", "kmer5", "kmer32", "kmer64"):
            hs.append(H("c10_get_extensions__" + tag, ["C10"],
                        "crate::kmer_ops::get_extensions::<%s>()" % ty, unwind=8,
                        tier="quick" if tag in ("kmer3", "kmer64") else "thorough", cap=300,
                        stubs=["S1"], funcs=["Kmer::get_extensions", "Exts::get"],
                        bounds=all_vals + ", all 256 extension sets, both directions"))
    return hs


def exts_harnesses():
    hs = []
    hs.append(H("c12_exts_rc", ["C12", "C03", "C05", "C06"], "crate::exts_ops::rc()",
                funcs=["Exts::rc", "Exts::complement", "Exts::reverse", "Exts::has_ext"],
                bounds="all 256 extension sets x both directions x all bases"))
    for tag in ("kmer3", "kmer4", "kmer6", "kmer16", "kmer31", "kmer32", "kmer48", "kmer64"):
        ty = KT_BY_TAG[tag][1]
        hs.append(H("c12_exts_rc_kmer__" + tag, ["C12", "C06"], "crate::exts_ops::rc_kmer::<%s>()" % ty,
                    funcs=["Kmer::extend", "Mer::rc"],
                    bounds="all k-mer values x both directions x all bases"))
    hs.append(H("c03_exts_algebra", ["C03", "C02", "C05", "C08", "C09"], "crate::exts_ops::algebra()", unwind=6,
                funcs=["Exts::num_ext_dir", "Exts::get_unique_extension", "Exts::single_dir", "Exts::set",
                       "Exts::add", "Exts::merge", "Exts::from_single_dirs", "Exts::mk", "Exts::mk_left",
                       "Exts::mk_right", "Exts::new", "Exts::empty"],
                bounds="all pairs of the 256 extension sets, both directions, all bases"))
    hs.append(H("c03_exts_get_list", ["C03"], "crate::exts_ops::get_list()", unwind=6, stubs=["S1"],
                funcs=["Exts::get"], bounds="all 256 extension sets x both directions"))
    hs.append(H("c08_exts_from_slice_bounds", ["C08"], "crate::exts_ops::from_slice_bounds::<6>()", unwind=8,
                funcs=["Exts::from_slice_bounds"],
                bounds="all reads of 6 bases, all (start,length) with start+length<=6"))
    return hs


def lmer_harnesses():
    hs = []
    for n in (1, 2, 3, 4, 5, 6):
        tier = "quick" if n <= 3 else "thorough"
        mx = 32 * n - 4
        b = "Lmer<[u64;%d]>: every raw state satisfying INV_L (all lengths 0..=%d, all contents)" % (n, mx)
        hs.append(H("c17_new__n%d" % n, ["C17"], "crate::lmer_ops::new::<%d>()" % n, unwind=n + 2, tier=tier,
                    funcs=["Vmer::new", "Mer::len", "Mer::is_empty", "Vmer::max_len"], bounds=b))
        hs.append(H("c17_get_set__n%d" % n, ["C17"], "crate::lmer_ops::get_set::<%d>()" % n, unwind=8 * n + 2,
                    tier=tier, funcs=["Mer::get", "Mer::set_mut", "MerImmut::set"], bounds=b + ", all positions, all bases"))
        hs.append(H("c17_set_slice__n%d" % n, ["C17"], "crate::lmer_ops::set_slice::<%d>()" % n, unwind=8 * n + 2,
                    tier=tier, cap=300, funcs=["Mer::set_slice_mut", "MerImmut::set_slice"],
                    bounds=b + ", all pos, n in 1..=32 with pos+n<=len, all 2^64 values"))
        hs.append(H("c17_rc__n%d" % n, ["C17", "C12"], "crate::lmer_ops::rc::<%d>()" % n, unwind=8 * n + 2,
                    tier=tier, cap=300, funcs=["Lmer::rc", "Mer::set_slice_mut"], bounds=b))
        hs.append(H("c17_eq_hash__n%d" % n, ["C17"], "crate::lmer_ops::eq_hash::<%d>()" % n, unwind=max(32 * n, 24 + 8 * n) + 2,
                    tier=tier, cap=300, funcs=["PartialEq::eq", "Hash::hash"], bounds=b + ", all pairs"))
    hs.append(H("c17_from_slice__n1", ["C17"], "crate::lmer_ops::from_slice::<1, 6>()", unwind=8,
                funcs=["Vmer::from_slice"], bounds="all byte strings (bases<4) of length 0..=6"))
    hs.append(H("c17_from_slice__n2", ["C17"], "crate::lmer_ops::from_slice::<2, 34>()", unwind=36,
                funcs=["Vmer::from_slice"], bounds="all byte strings (bases<4) of length 0..=34"))
    # k-mer extraction: every K that fits, from every capacity
    core = {"kmer3", "kmer4", "kmer8", "kmer16", "kmer31", "kmer32", "kmer48", "kmer64"}
    for tag, ty, k, bits, _ in KT:
        for n in (1, 2, 3):
            if k > 32 * n - 4:
                continue
            q = tag in core and (n == 3 or (n == 1 and k <= 16) or (n == 2 and k >= 31))
            hs.append(H("c13_lmer_get_kmer__%s__n%d" % (tag, n), ["C13", "C17"],
                        "crate::lmer_ops::get_kmer::<%s, %d>()" % (ty, n), unwind=5,
                        tier="quick" if q else "thorough",
                        funcs=["Lmer::get_kmer", "Vmer::first_kmer", "Vmer::last_kmer", "Mer::set_slice_mut"],
                        bounds="Lmer<[u64;%d]> every INV_L state with len>=K, every position" % n))
    return hs


def dnastring_harnesses():
    hs = []
    INV = "every INV_S state (storage.len()==ceil(len/32), padding bits zero)"
    for b in (0, 1, 2, 3):
        hs.append(H("c14_observe__b%d" % b, ["C14"], "crate::dnastring_ops::observe::<%d>()" % b,
                    unwind=32 * b + 4, funcs=["DnaString::len", "DnaString::is_empty", "Mer::get", "DnaString::iter",
                                              "DnaStringIter::next", "IntoIterator::into_iter"],
                    bounds="%d-block strings (len %s), %s, all positions" % (b, "0" if b == 0 else "%d..=%d" % (32 * b - 31, 32 * b), INV)))
        hs.append(H("c14_push__b%d" % b, ["C14"], "crate::dnastring_ops::push::<%d>()" % b, unwind=8 * b + 10,
                    funcs=["DnaString::push", "set_by_addr", "addr"],
                    bounds="%d-block pre-state, %s, all 256 pushed byte values" % (b, INV)))
        if b >= 1:
            hs.append(H("c14_set__b%d" % b, ["C14"], "crate::dnastring_ops::set::<%d>()" % b, unwind=8 * b + 10,
                        funcs=["Mer::set_mut", "set_by_addr"], bounds="%d-block state, %s, all i,j, all 256 byte values" % (b, INV)))
            hs.append(H("c14_ndiffs__b%d" % b, ["C14"], "crate::dnastring_ops::ndiffs_::<%d>()" % b, unwind=32 * b + 4,
                        cap=300, funcs=["ndiffs", "DnaString::hamming_distance", "count_diff_2_bit_packed"],
                        bounds="all pairs of equal-length %d-block INV_S strings" % b))
        if b <= 2:
            hs.append(H("c14_clear__b%d" % b, ["C14"], "crate::dnastring_ops::clear::<%d>()" % b, unwind=8 * b + 10,
                        funcs=["DnaString::clear", "DnaString::push"], bounds="%d-block pre-state, %s" % (b, INV)))
            hs.append(H("c14_clone_eq__b%d" % b, ["C14"], "crate::dnastring_ops::clone_eq::<%d>()" % b, unwind=8 * b + 10,
                        funcs=["Clone::clone", "PartialEq::eq"], bounds="%d-block state, %s" % (b, INV)))
    for pre in (0, 1, 30, 31, 32, 33, 63, 64, 65):
        b = (pre + 31) // 32
        for m in (0, 1, 3):
            hs.append(H("c14_extend__pre%d_m%d" % (pre, m), ["C14"], "crate::dnastring_ops::extend::<%d, %d, %d>()" % (b, pre, m), unwind=36,
                        cap=300, tier="quick" if (m == 3 or pre in (0, 31, 32)) else "thorough",
                        funcs=["DnaString::extend", "DnaString::push"],
                        bounds="pre-length %d (all contents), %d appended bases (all values)" % (pre, m)))
    for pre in (0, 30, 32):
        b = (pre + 31) // 32
        hs.append(H("c14_push_bytes__pre%d" % pre, ["C14"], "crate::dnastring_ops::push_bytes::<%d, %d, 2>()" % (b, pre), unwind=12,
                    cap=300, funcs=["DnaString::push_bytes", "DnaString::push"],
                    bounds="pre-length %d (all contents), 2 packed bytes (all values), seq_length 0..=8" % pre))
    for n in (0, 1, 5, 31, 32, 33):
        hs.append(H("c14_ctors__n%d" % n, ["C14"], "crate::dnastring_ops::ctors::<%d>()" % n, unwind=20,
                    funcs=["DnaString::new", "Default::default", "DnaString::with_capacity", "DnaString::blank", "Vmer::new"],
                    bounds="n=%d" % n))
        hs.append(H("c14_from_bytes__n%d" % n, ["C14"], "crate::dnastring_ops::from_bytes::<%d, %d>()" % (n, n + 1), unwind=36,
                    cap=300, funcs=["DnaString::from_bytes", "DnaString::extend"], bounds="all base strings of length %d" % n))
    for n in (0, 1):
        hs.append(H("c14_from_dna_string__n%d" % n, ["C14", "C16"], "crate::dnastring_ops::from_dna_string::<%d, %d>()" % (n, n + 1), unwind=36,
                    cap=300, funcs=["DnaString::from_dna_string", "base_to_bits", "DnaString::extend"],
                    bounds="all ASCII (<128) strings of length %d" % n))
    for n in (1, 2, 3, 5):
        hs.append(H("c14_render__len%d" % n, ["C14"], "crate::dnastring_ops::render::<%d>()" % n, unwind=n + 4,
                    cap=300, stubs=["S1"], funcs=["DnaString::to_bytes", "DnaString::to_ascii_vec", "DnaString::reverse", "bits_to_ascii"],
                    bounds="all strings of length %d" % n))
    for n in (1, 3):
        hs.append(H("c14_display__len%d" % n, ["C14"], "crate::dnastring_ops::display::<%d>()" % n, unwind=n + 6, cap=400, stubs=["S4"],
                    funcs=["Display::fmt (DnaString)", "bits_to_base"], bounds="all strings of length %d" % n))
    for n in (0, 1, 2, 31, 32, 33, 63, 64, 65):
        b = (n + 31) // 32
        hs.append(H("c12_ds_rc__len%d" % n, ["C12", "C14"], "crate::dnastring_ops::rc::<%d, %d>()" % (b, n), unwind=max(n, 33) + 3,
                    cap=300, tier="quick" if n <= 33 else "thorough",
                    funcs=["DnaString::rc", "DnaString::extend"], bounds="all strings of length %d" % n))
    for ba, bb in ((0, 0), (0, 1), (1, 1), (1, 2), (2, 1), (2, 2)):
        hs.append(H("c14_eq_ord_hash__b%d_b%d" % (ba, bb), ["C14"], "crate::dnastring_ops::eq_ord_hash::<%d, %d>()" % (ba, bb),
                    unwind=32 * max(ba, bb, 1) + 12, cap=300,
                    funcs=["PartialEq::eq", "Ord::cmp", "PartialOrd::partial_cmp", "Hash::hash"],
                    bounds="all pairs of INV_S strings with %d and %d blocks" % (ba, bb)))
    for pre, e, m in ((5, 0, 3), (5, 1, 3), (31, 2, 3), (31, 1, 0), (32, 1, 1)):
        hs.append(H("c14_packed_add__pre%d_e%d_m%d" % (pre, e, m), ["C14"], "crate::dnastring_ops::packed_add::<1, %d, %d, %d>()" % (pre, e, m), unwind=14,
                    cap=300, funcs=["PackedDnaStringSet::add", "PackedDnaStringSet::get", "PackedDnaStringSet::slice", "PackedDnaStringSet::len"],
                    bounds="backing string of %d bases (all contents), %d existing entries (all consistent start/length), %d added bases (all values)" % (pre, e, m)))
    # C13: extraction from the growable string
    core = {"kmer4", "kmer31", "kmer32", "kmer64"}
    for tag, ty, k, bits, _ in KT:
        if tag == "kmer4v":
            continue
        for b in (1, 2, 3):
            if k > 32 * b:
                continue
            q = tag in core and ((b == 2 and k <= 32) or (b == 3 and k > 32))
            hs.append(H("c13_ds_get_kmer__%s__b%d" % (tag, b), ["C13"],
                        "crate::dnastring_ops::get_kmer::<%s, %d>()" % (ty, b), unwind=8 * b + 10, cap=500,
                        tier="quick" if q else "thorough",
                        funcs=["DnaString::get_kmer", "Vmer::first_kmer", "Vmer::last_kmer", "Vmer::term_kmer", "Mer::set_slice_mut"],
                        bounds="%d-block strings, %s, every position" % (b, INV)))
    return hs


def slice_harnesses():
    hs = []
    ST = "every INV_S string with %d blocks x every slice record (start,length,is_rc) with start+length<=len"
    for b in (1, 2, 3):
        hs.append(H("c15_read__b%d" % b, ["C15", "C12"], "crate::slice_ops::read::<%d>()" % b, unwind=8 * b + 10, cap=300,
                    funcs=["DnaStringSlice::get", "DnaStringSlice::len", "DnaStringSlice::is_empty", "Mer::iter", "IntoIterator::into_iter", "complement"],
                    bounds=ST % b + ", all positions"))
        hs.append(H("c15_subslice__b%d" % b, ["C15", "C12"], "crate::slice_ops::subslice::<%d>()" % b, unwind=8 * b + 10, cap=300,
                    funcs=["DnaStringSlice::slice", "DnaStringSlice::rc"],
                    bounds=ST % b + ", all (a,b) with a<=b<=length"))
    for b in (1, 2):
        hs.append(H("c15_ctor__b%d" % b, ["C15"], "crate::slice_ops::ctor::<%d>()" % b, unwind=8 * b + 10, cap=300,
                    funcs=["DnaString::prefix", "DnaString::suffix", "DnaString::slice"],
                    bounds="every INV_S string with %d blocks, all k<=len, all a<=b<=len" % b))
    hs.append(H("c15_eq__b1_l6", ["C15"], "crate::slice_ops::eq::<1, 6>()", unwind=18, cap=300,
                funcs=["PartialEq::eq (DnaStringSlice)"], bounds="two slices of one 1-block string, lengths <= 6, all offsets/orientations"))
    hs.append(H("c15_eq__b2_l4", ["C15"], "crate::slice_ops::eq::<2, 4>()", unwind=26, cap=300,
                funcs=["PartialEq::eq (DnaStringSlice)"], bounds="two slices of one 2-block string, lengths <= 4, all offsets/orientations"))
    core = {"kmer4", "kmer16"}
    for tag, ty, k, bits, _ in KT:
        if tag == "kmer4v":
            continue
        b = 2 if k <= 32 else 3
        hs.append(H("c13_slice_get_kmer__%s__b%d" % (tag, b), ["C13", "C15"],
                    "crate::slice_ops::get_kmer::<%s, %d>()" % (ty, b), unwind=8 * b + 10, cap=900, mem=30 if b == 3 else 12,
                    tier="quick" if tag in core else "thorough",
                    funcs=["DnaStringSlice::get_kmer", "DnaString::get_kmer", "Mer::rc", "Vmer::first_kmer", "Vmer::last_kmer"],
                    bounds="every string of %d bases x every slice record (start,length,is_rc) x every k-mer position" % (32 * b)))
        hs.append(H("c12_slice_kmer_rc__%s__b%d" % (tag, b), ["C12", "C15"],
                    "crate::slice_ops::get_kmer_rc_commute::<%s, %d>()" % (ty, b), unwind=8 * b + 10, cap=900,
                    tier="quick" if tag in ("kmer4", "kmer32") else "thorough",
                    funcs=["DnaStringSlice::get_kmer", "DnaStringSlice::rc", "Mer::rc"],
                    bounds="every string of %d bases x every slice record x every k-mer position" % (32 * b)))
    for n in (0, 1, 2, 3, 5):
        hs.append(H("c15_render__len%d" % n, ["C15"], "crate::slice_ops::render::<2, %d>()" % n, unwind=26, cap=600, mem=24, stubs=["S1"], tier="quick" if n <= 3 else "thorough",
                    funcs=["DnaStringSlice::bytes", "DnaStringSlice::ascii", "DnaStringSlice::to_dna_string", "DnaStringSlice::to_owned"],
                    bounds="2-block string, every start and orientation, output length %d" % n))
    for n in (1, 3):
        hs.append(H("c15_display__len%d" % n, ["C15"], "crate::slice_ops::display::<%d>()" % n, unwind=18, cap=400,
                    funcs=["Display::fmt (DnaStringSlice)"], bounds="1-block string, every start and orientation, slice length %d" % n))
        hs.append(H("c15_debug__start%d_len%d" % (n - 1, n), ["C15"], "crate::slice_ops::debug::<%d, %d>()" % (n - 1, n), unwind=n + 6, cap=400, stubs=["S4"],
                    funcs=["Debug::fmt (DnaStringSlice)"], bounds="8-base string (all contents), slice start %d length %d, both orientations" % (n - 1, n)))
    for b, n in ((1, 0), (1, 1), (2, 2), (2, 5)):
        hs.append(H("c15_hamming_small__b%d_len%d" % (b, n), ["C15"], "crate::slice_ops::hamming_small::<%d, %d>()" % (b, n), unwind=8 * b + n + 10,
                    cap=600, funcs=["DnaStringSlice::hamming_dist"],
                    bounds="two fully symbolic %d-block strings, every offset and orientation, slice length %d" % (b, n)))
    for n in (31, 32, 33, 64, 65):
        b = (n + 31) // 32
        hs.append(H("c15_hamming_whole__len%d" % n, ["C15"], "crate::slice_ops::hamming_whole::<%d, %d>()" % (b, n), unwind=max(n, 8 * b) + 10,
                    cap=900, tier="quick" if n <= 33 else "thorough",
                    funcs=["DnaStringSlice::hamming_dist", "DnaStringSlice::get_kmer", "count_diff_2_bit_packed"],
                    bounds="two fully symbolic strings of %d bases, whole-string slices, both orientations each" % n))
    for n in (32, 33, 40):
        hs.append(H("c15_hamming_offsets__len%d" % n, ["C15"], "crate::slice_ops::hamming_offsets::<%d>()" % n, unwind=n + 30,
                    cap=1200, tier="quick" if n == 33 else "thorough",
                    funcs=["DnaStringSlice::hamming_dist", "DnaStringSlice::get_kmer", "count_diff_2_bit_packed"],
                    bounds="two fully symbolic 96-base strings, slice length %d, starts independently in {0,1,32,33}, both orientations each" % n))
    for n in (1023, 1024, 1025, 1056, 2047, 2048, 2049):
        b = (n + 31) // 32
        hs.append(H("c15_hamming_sparse__len%d" % n, ["C15"], "crate::slice_ops::hamming_sparse::<%d, %d>()" % (b, n), unwind=n + 10,
                    cap=1200, mem=20, tier="quick" if n == 1024 else "thorough",
                    funcs=["DnaStringSlice::hamming_dist", "DnaStringSlice::get_kmer"],
                    bounds="length %d: first string fully symbolic, second differs from it at <= 2 symbolic positions holding symbolic bases; whole-string forward slices" % n))
    return hs


def graph_harnesses():
    hs = []
    for tag in ("kmer3", "kmer4", "kmer5"):
        ty, k = KT_BY_TAG[tag][1], KT_BY_TAG[tag][2]
        for extra in (3, 6):
            l0, l1 = k + extra, k
            hs.append(H("c18_node_kmer_iter__%s__l%d" % (tag, l0), ["C18"],
                        "crate::graph_ops::node_kmer_iter::<%s, %d, %d>()" % (ty, l0, l1), unwind=l0 + l1 + 4, cap=600,
                        stubs=["S1", "S2"], tier="quick" if (tag, extra) in (("kmer4", 3), ("kmer3", 6)) else "thorough",
                        funcs=["NodeKmer::into_iter", "NodeKmerIter::next", "NodeKmerIter::nth", "NodeKmerIter::size_hint",
                               "ExactSizeIterator::len", "DebruijnGraph::get_node_kmer", "DnaStringSlice::get_kmer"],
                        bounds="2-node graph (node 0: %d bases = %d k-mers, node 1: %d bases = 1 k-mer; all bases, both nodes iterated), every sequence of 3 calls each next() or nth(n), n in 0..=7" % (l0, extra + 1, l1)))
        hs.append(H("c18_node_into_iter__%s" % tag, ["C18"],
                    "crate::graph_ops::node_into_iter::<%s, %d, %d>()" % (ty, k + 2, k), unwind=2 * k + 8, cap=600,
                    stubs=["S1", "S2"], tier="quick" if tag == "kmer4" else "thorough",
                    funcs=["IntoIterator for &DebruijnGraph", "NodeIntoIter::next", "DebruijnGraph::iter_nodes", "NodeIter::next", "Node::len"],
                    bounds="2-node graph (%d and %d bases), all bases" % (k + 2, k)))
    return hs


def ascii_harnesses():
    hs = []
    hs.append(H("c16_tables", ["C16"], "crate::ascii_ops::tables()",
                funcs=["base_to_bits", "dna_only_base_to_bits", "is_valid_base", "bits_to_ascii", "bits_to_base", "complement"],
                bounds="all 256 byte values"))
    for n in (0, 1, 31, 32, 33, 63, 64, 65, 95, 96, 97):
        q = n in (0, 1, 32, 33, 65)
        hs.append(H("c16_from_acgt_scalar__n%d" % n, ["C16"], "crate::ascii_ops::from_acgt_bytes::<%d, %d>()" % (n, n + 1),
                    unwind=36, cap=600, stubs=["S1", "S3a"], tier="quick" if q else "thorough",
                    funcs=["DnaString::from_acgt_bytes (scalar path)", "base_to_bits", "DnaString::extend"],
                    bounds="all byte strings of length %d (all 256 values in every lane)" % n))
        hs.append(H("c16_from_acgt_vector__n%d" % n, ["C16"], "crate::ascii_ops::from_acgt_bytes::<%d, %d>()" % (n, n + 1),
                    unwind=36, cap=600, stubs=["S1", "S3b"], tier="quick" if q else "thorough",
                    funcs=["DnaString::from_acgt_bytes (vector path: chunking, tail, length)", "DnaString::extend"],
                    bounds="all byte strings of length %d (all 256 values in every lane); kernels = scalar spec" % n))
    for n, r in ((1, 1), (2, 2), (3, 0)):
        hs.append(H("c16_hashn__n%d_r%d" % (n, r), ["C16"], "crate::ascii_ops::hashn::<%d, %d>()" % (n, r), unwind=20, cap=900,
                    stubs=["S1"], tier="quick" if n == 1 else "thorough",
                    funcs=["DnaString::from_acgt_bytes_hashn", "DefaultHasher (SipHash-1-3)"],
                    bounds="all inputs of %d bytes, all read names of %d bytes" % (n, r)))
    for n, r in ((2, 1), (3, 1)):
        hs.append(H("c16_hashn_position__n%d_r%d" % (n, r), ["C16"], "crate::ascii_ops::hashn_position::<%d, %d>()" % (n, r), unwind=20, cap=1200,
                    stubs=["S1"], tier="quick" if n == 2 else "thorough",
                    funcs=["DnaString::from_acgt_bytes_hashn", "DefaultHasher (SipHash-1-3)"],
                    bounds="all pairs of %d-byte inputs sharing a non-ACGT byte at a symbolic position, all %d-byte read names" % (n, r)))
    for n in (1, 2):
        hs.append(H("c16_dna_only__n%d" % n, ["C16"], "crate::ascii_ops::dna_only::<%d>()" % n, unwind=12, cap=900,
                    tier="quick" if n == 1 else "thorough",
                    funcs=["DnaString::from_dna_only_string", "dna_only_base_to_bits"], bounds="all ASCII strings of %d chars" % n))
    return hs


def iter_harnesses():
    hs = []
    # (k-mer tag, container lengths): lengths below K, == K, and up to K+3
    plan = [("kmer3", (0, 2, 3, 4, 6), True), ("kmer4", (3, 4, 7), True), ("kmer5", (5, 8), False), ("kmer8", (8, 11), False)]
    fns = {"dnaslice": ["DnaSlice::get_kmer", "DnaSlice::get"], "dnabytes": ["DnaBytes::get_kmer", "DnaBytes::get", "DnaBytes::set_mut"],
           "dnastring": ["DnaString::get_kmer", "DnaString::from_bytes"], "lmer": ["Lmer::get_kmer", "Vmer::from_slice"]}
    for tag, lens, q in plan:
        ty, k = KT_BY_TAG[tag][1], KT_BY_TAG[tag][2]
        for n in lens:
            for cont in ("dnaslice", "dnabytes", "dnastring", "lmer"):
                quick = q and (cont == "dnaslice" or n in (4, 6, 7))
                hs.append(H("c13_iter_%s__%s__n%d" % (cont, tag, n), ["C13"] + (["C05", "C06"] if cont == "dnaslice" else []),
                            "crate::iter_ops::%s::<%s, %d>()" % (cont, ty, n), unwind=max(n, 34) + 4, cap=600,
                            stubs=["S1"], tier="quick" if quick else "thorough",
                            funcs=["Vmer::iter_kmers", "KmerIter::next", "Vmer::iter_kmer_exts", "KmerExtsIter::next", "Kmer::extend_right"] + fns[cont],
                            bounds="all base strings of length %d (K=%d), all 256 boundary extension sets" % (n, k)))
            if n >= 1:
                hs.append(H("c13_iter_slice__%s__n%d" % (tag, n), ["C13", "C15"],
                            "crate::iter_ops::dnastringslice::<%s, %d, %d>()" % (ty, n, n + 2), unwind=max(n, 34) + 6, cap=600,
                            tier="quick" if (q and n in (4, 7)) else "thorough",
                            funcs=["Vmer::iter_kmers", "Vmer::iter_kmer_exts", "DnaStringSlice::get_kmer", "DnaStringSlice::rc"],
                            bounds="all strings of length %d, interior slice of length %d, forward and reverse-complemented" % (n + 2, n)))
            hs.append(H("c13_kmers_from__%s__n%d" % (tag, n), ["C13", "C16"],
                        "crate::iter_ops::kmers_from::<%s, %d, %d>()" % (ty, n, n + 1), unwind=n + 6, cap=600, stubs=["S1"],
                        tier="quick" if q and n in (2, 4, 6, 7) else "thorough",
                        funcs=["Kmer::kmers_from_bytes", "Kmer::kmers_from_ascii", "base_to_bits"],
                        bounds="all inputs of length %d (K=%d): bases < 4 / all 256 byte values" % (n, k)))
    return hs


def msp_harnesses():
    hs = []
    for k, ns in ((2, (2, 3, 4, 5)), (3, (3, 4, 5, 6)), (4, (4, 5, 6))):
        for n in ns:
            heavy = (n - k) >= 2 and k >= 3
            hs.append(H("c07_scan__n%d_k%d" % (n, k), ["C07"], "crate::msp_ops::scan::<%d, %d>()" % (n, k), unwind=n + 6,
                        cap=900, mem=20, stubs=["S1", "S2"], tier="thorough" if (n, k) in ((6, 3), (6, 4), (5, 3)) else "quick",
                        funcs=["Scanner::new", "Scanner::scan", "Scanner::mp", "Scanner::incr", "MinPos::cmp", "DnaSlice::get_kmer", "Kmer::extend_right"],
                        bounds="all reads of %d bases, k=%d, P=Kmer2, all score tables over the 16 2-mers (ties and constants included)" % (n, k)))
    for n, k in ((3, 3), (4, 3), (4, 4), (5, 4)):
        hs.append(H("c07_simple_scan__n%d_k%d" % (n, k), ["C07", "C08"], "crate::msp_ops::simple_scan::<%d, %d>()" % (n, k), unwind=20,
                    cap=900, mem=20, stubs=["S1", "S2"], tier="quick" if n == k else "thorough",
                    funcs=["msp::simple_scan", "Scanner::scan", "MspIntervalP::bucket", "MspInterval::start/len/end/range/bucket"],
                    bounds="all reads of %d bases, k=%d, P=Kmer2, all injective permutation tables, rc on and off" % (n, k)))
    for k, ns in ((3, (3, 4, 5)), (4, (4, 5))):
        for n in ns:
            hs.append(H("c08_shard_perm__n%d_k%d" % (n, k), ["C08"], "crate::msp_ops::shard::<%d, %d, true>()" % (n, k), unwind=20,
                        cap=900, mem=20, stubs=["S1", "S2"], tier="quick" if n - k <= 0 else "thorough",
                        funcs=["msp_sequence", "Scanner::scan", "MspIntervalP::bucket", "Kmer::min_rc", "Exts::from_slice_bounds", "Vmer::from_slice"],
                        bounds="all reads of %d bases, k=%d, P=Kmer2, all injective permutation tables, rc mode on and off" % (n, k)))
    for k, ns in ((3, (5, 6)), (4, (4, 5, 6))):
        for n in ns:
            hs.append(H("c08_shard_default__n%d_k%d" % (n, k), ["C08"], "crate::msp_ops::shard::<%d, %d, false>()" % (n, k), unwind=20,
                        cap=900, mem=20, stubs=["S1", "S2"], tier="quick" if n - k <= 0 else "thorough",
                        funcs=["msp_sequence", "Scanner::scan", "MspIntervalP::bucket", "Kmer::min_rc", "Exts::from_slice_bounds", "Vmer::from_slice"],
                        bounds="all reads of %d bases, k=%d, P=Kmer2, default permutation, rc mode on and off" % (n, k)))
    return hs


def step_harnesses():
    hs = []
    VAL = "table validity assumed: distinct keys, canonical when unstranded, the examined link's target has >=1 extension on the facing side unless palindromic (the code's documented `unreachable`)"
    for tag, ns in (("kmer4", (1, 2, 3)), ("kmer3", (2, 3)), ("kmer5", (3,)), ("kmer6", (3,)), ("kmer2", (3,))):
        ty = KT_BY_TAG[tag][1]
        for n in ns:
            for je in (False, True):
                q = (tag == "kmer4" and n == 3) or (tag == "kmer3" and n == 2 and not je)
                hs.append(H("c02_kmer_step__%s__n%d_%s" % (tag, n, "eq" if je else "any"), ["C02", "C06"],
                            "crate::step_ops::kmer_step::<%s, %d, %s>()" % (ty, n, "true" if je else "false"),
                            unwind=max(12, n + 4), cap=900, mem=20, stubs=["S1", "S2"], tier="quick" if q else "thorough",
                            funcs=["CompressFromHash::try_extend_kmer", "CompressFromHash::get_kmer_data", "CompressFromHash::get_kmer_id",
                                   "Kmer::min_rc_flip", "Kmer::is_palindrome", "Dir::cond_flip",
                                   "ScmapCompress::join_test" if je else "SimpleCompress::join_test"],
                            bounds="%d-row table over %s: all keys, all 256 extension sets per row, all payloads, all availability subsets, stranded and unstranded, both directions, every start row; %s" % (n, tag, VAL)))
    GV = "graph validity assumed: node-end k-mers pairwise distinct per side (MPHF precondition)"
    shapes = [("kmer3", 2, (3, 4)), ("kmer3", 2, (4, 3)), ("kmer4", 2, (4, 5)), ("kmer4", 2, (4, 4)), ("kmer3", 3, (3, 4, 3)), ("kmer4", 3, (4, 5, 4))]
    for tag, nn, lens in shapes:
        ty, k = KT_BY_TAG[tag][1], KT_BY_TAG[tag][2]
        L = k + 1
        ls = "_".join(str(x) for x in lens)
        arr = "[%s]" % ", ".join(str(x) for x in lens)
        q = nn == 2 and lens in ((3, 4), (4, 5))
        hs.append(H("c03_find_link__%s__l%s" % (tag, ls), ["C03", "C09", "C06"],
                    "crate::step_ops::find_link::<%s, %d, %d>(%s)" % (ty, nn, L, arr), unwind=max(14, 2 * L + 4), cap=900, mem=20,
                    stubs=["S1", "S2"], tier="quick" if q else "thorough",
                    funcs=["DebruijnGraph::find_link", "DebruijnGraph::search_kmer", "BaseGraph::add", "BaseGraph::finish_serial"],
                    bounds="%d-node graph with node lengths %s over %s: all bases, stranded and unstranded, ALL 4^K query k-mers (present and absent), both directions; %s" % (nn, lens, tag, GV)))
        hs.append(H("c03_find_edges__%s__l%s" % (tag, ls), ["C03"],
                    "crate::step_ops::find_edges::<%s, %d, %d>(%s)" % (ty, nn, L, arr), unwind=max(14, 2 * L + 4), cap=900, mem=20,
                    stubs=["S1", "S2", "S7"], tier="quick" if (tag == "kmer3" and lens == (3, 4)) else "thorough",
                    funcs=["DebruijnGraph::find_edges", "Node::edges", "Node::l_edges", "Node::r_edges", "Node::exts", "Node::data", "Node::len"],
                    bounds="%d-node graph, lengths %s over %s: all bases, all extension sets, every node and side; %s" % (nn, lens, tag, GV)))
        hs.append(H("c09_fix_exts__%s__l%s" % (tag, ls), ["C09", "C03"],
                    "crate::step_ops::fix_exts::<%s, %d, %d>(%s)" % (ty, nn, L, arr), unwind=max(14, 2 * L + 4), cap=900, mem=20,
                    stubs=["S1", "S2"], tier="quick" if q and tag == "kmer4" else "thorough",
                    funcs=["DebruijnGraph::get_valid_exts", "DebruijnGraph::fix_exts", "DebruijnGraph::find_link"],
                    bounds="%d-node graph, lengths %s over %s: all bases, all extension sets, all valid-node subsets (and None); %s" % (nn, lens, tag, GV)))
        for je in (False, True):
            hs.append(H("c09_node_step__%s__l%s_%s" % (tag, ls, "eq" if je else "any"), ["C09"],
                        "crate::step_ops::node_step::<%s, %d, %d, %s>(%s)" % (ty, nn, L, "true" if je else "false", arr),
                        unwind=max(14, 2 * L + 4), cap=900, mem=20, stubs=["S1", "S2"],
                        tier="quick" if (q and not je) else "thorough",
                        funcs=["CompressFromGraph::try_extend_node", "DebruijnGraph::find_link", "Node::sequence", "Vmer::term_kmer",
                               "ScmapCompress::join_test" if je else "SimpleCompress::join_test"],
                        bounds="%d-node graph, lengths %s over %s: all bases, extension sets, payloads, availability subsets, stranded/unstranded, both directions, every start node; %s; the examined extension resolves to a node with >=1 facing extension (documented panics otherwise)" % (nn, lens, tag, GV)))
        for je in (False, True):
            uw = L + 4
            if nn != 2 or (je and lens != (3, 4)):
                continue  # growth-loop queries: 2-node shapes; the payload-equality spec on one shape
            if lens == (4, 4):
                continue
            hs.append(H("c09_node_walk__%s__l%s_%s" % (tag, ls, "eq" if je else "any"), ["C09"],
                        "crate::step_ops::node_walk::<%s, %d, %d, %s>(%s)" % (ty, nn, L, "true" if je else "false", arr),
                        unwind=uw, cap=1800, mem=8, stubs=["S1", "S2"], ofmt="old",
                        tier="quick" if (q and not je and tag == "kmer3") else "thorough",
                        funcs=["CompressFromGraph::extend_node", "CompressFromGraph::try_extend_node", "DebruijnGraph::find_link", "BitSet::remove"],
                        bounds="%d-node graph, lengths %s over %s: all bases, extension sets, payloads, availability subsets, stranded/unstranded, both directions, every start node; %s; every examined extension resolves to a node with >=1 facing extension" % (nn, lens, tag, GV)))
            if True:
                # built (step_ops::graph_build_node) but NOT registered: three instances ran 25 min at
                # ~5 GB each without a verdict; a thorough check must not be inconclusive on the clean tree
                continue
            hs.append(H("c09_build_node__%s__l%s_%s" % (tag, ls, "eq" if je else "any"), ["C09"],
                        "crate::step_ops::graph_build_node::<%s, %d, %d, %s>(%s)" % (ty, nn, L, "true" if je else "false", arr),
                        unwind=uw, cap=1800, mem=10, stubs=["S1", "S2"], ofmt="old",
                        tier="thorough",
                        funcs=["CompressFromGraph::build_node", "CompressFromGraph::extend_node", "CompressFromGraph::try_extend_node",
                               "DebruijnGraph::sequence_of_path", "Exts::from_single_dirs", "Exts::complement",
                               "ScmapCompress::reduce" if je else "SimpleCompress::reduce"],
                        bounds="%d-node graph, lengths %s over %s: all bases, extension sets, payloads, availability subsets containing the seed, stranded/unstranded, every seed node; %s; every examined extension resolves to a node with >=1 facing extension" % (nn, lens, tag, GV)))
    # a longer second node: the only way (inside small bounds) for ONE node side to reach the SAME
    # neighbour twice — once through its left end, once (reverse-complemented) through its right end
    hs.append(H("c03_find_edges__kmer3__l3_5", ["C03"],
                "crate::step_ops::find_edges::<%s, 2, 5>([3, 5])" % KT_BY_TAG["kmer3"][1], unwind=14, cap=900, mem=8,
                stubs=["S1", "S2", "S7"], tier="quick",
                funcs=["DebruijnGraph::find_edges", "Node::edges", "Node::l_edges", "Node::r_edges"],
                bounds="2-node graph, lengths (3, 5) over kmer3: all bases, all extension sets, every node and side; %s" % GV))
    for tag, lens, (a, b) in (("kmer3", (3, 4), (0, 1)), ("kmer3", (3, 4), (1, 0)), ("kmer3", (4, 4), (0, 0)), ("kmer4", (4, 5), (0, 1)), ("kmer4", (5, 4), (1, 1))):
        ty, k = KT_BY_TAG[tag][1], KT_BY_TAG[tag][2]
        hs.append(H("c09_sequence_of_path__%s__l%d_%d__p%d%d" % (tag, lens[0], lens[1], a, b), ["C09", "C03"],
                    "crate::step_ops::sequence_of_path::<%s, %d>([%d, %d], %d, %d)" % (ty, k + 1, lens[0], lens[1], a, b), unwind=2 * (k + 1) + 6, cap=900, mem=20,
                    stubs=["S1", "S2"], tier="quick" if (tag == "kmer3" and (a, b) == (0, 1)) else "thorough",
                    funcs=["DebruijnGraph::sequence_of_path", "DnaStringSlice::rc", "DnaString::push"],
                    bounds="2-node graph, lengths %s: all bases, path (node %d, node %d) with both entry sides symbolic" % (lens, a, b)))
    for tag, n in (("kmer3", 2), ("kmer4", 3), ("kmer5", 3), ("kmer8", 3)):
        ty = KT_BY_TAG[tag][1]
        hs.append(H("c03_censor__%s__n%d" % (tag, n), ["C03"], "crate::step_ops::censor::<%s, %d>()" % (ty, n), unwind=n + 6, cap=600,
                    tier="quick" if tag in ("kmer4",) else "thorough",
                    funcs=["remove_censored_exts", "Kmer::extend", "Kmer::min_rc", "slice::binary_search_by_key"],
                    bounds="every sorted %d-row table over %s (all keys, extension sets, payloads), stranded and unstranded" % (n, tag)))
        hs.append(H("c03_censor_sharded__%s__n%d" % (tag, n), ["C03"], "crate::step_ops::censor_sharded::<%s, %d, %d>()" % (ty, n, n), unwind=n + 6, cap=600,
                    tier="quick" if tag in ("kmer4",) else "thorough",
                    funcs=["remove_censored_exts_sharded", "Kmer::extend", "Kmer::min_rc", "slice::binary_search"],
                    bounds="every sorted %d-row table and sorted %d-entry all-k-mers list over %s, stranded and unstranded" % (n, n, tag)))
    return hs


def walk_harnesses():
    """C01/C02: the growth loops of the k-mer-table compressor (hook H2b)."""
    hs = []
    VAL = "table validity assumed: distinct keys, canonical when unstranded, every examined link's target has >=1 extension on the facing side unless palindromic (the code's documented `unreachable`)"
    for tag, ns in (("kmer4", (2, 3)), ("kmer3", (2, 3)), ("kmer5", (2,)), ("kmer6", (2,))):
        ty, k = KT_BY_TAG[tag][1], KT_BY_TAG[tag][2]
        for n in ns:
            for je in (False, True):
                uw = max(k + 2, n + 3)
                qw = tag == "kmer4" and ((n == 2 and not je) or n == 3)
                qb = tag == "kmer4" and (n == 2 or (n == 3 and not je))
                suffix = "%s__n%d_%s" % (tag, n, "eq" if je else "any")
                hs.append(H("c02_walk__" + suffix, ["C02", "C01"],
                            "crate::walk_ops::walk::<%s, %d, %s>()" % (ty, n, "true" if je else "false"),
                            unwind=uw, cap=900, mem=8, stubs=["S1", "S2"], tier="quick" if qw else "thorough",
                            funcs=["CompressFromHash::extend_kmer", "CompressFromHash::try_extend_kmer", "BitSet::remove", "Vec::push"],
                            bounds="%d-row table over %s: all keys, extension sets, payloads, availability subsets, stranded/unstranded, both directions, every start row; %s" % (n, tag, VAL)))
                hs.append(H("c01_build_node__" + suffix, ["C01", "C02"],
                            "crate::walk_ops::build_node::<%s, %d, %s>()" % (ty, n, "true" if je else "false"),
                            unwind=uw, cap=1200, mem=8, stubs=["S1", "S2", "S6"], tier="quick" if qb else "thorough",
                            funcs=["CompressFromHash::build_node", "CompressFromHash::extend_kmer", "CompressFromHash::try_extend_kmer",
                                   "VecDeque::push_front", "VecDeque::push_back", "Exts::from_single_dirs", "Exts::complement",
                                   "ScmapCompress::reduce" if je else "SimpleCompress::reduce"],
                            bounds="%d-row table over %s: all keys, extension sets, payloads, availability subsets containing the seed, stranded/unstranded, every seed row; caller-supplied scratch deque pre-reserved (capacity unobservable); %s" % (n, tag, VAL)))
    return hs


# core::fmt::write's loop over the (constant) format template needs ~11 iterations for the widest
# line; giving only that loop its own bound keeps the global bound — which every data-dependent
# loop of the code under test is unwound to — at 7. If the loop id ever changes (other toolchain)
# CBMC ignores the entry, the global bound applies and the unwinding assertion reports it
# (inconclusive, never a false pass).
FMT_WRITE_UNWINDSET = "--unwindset _RNvNtCs8xvirJzNMvV_4core3fmt5write.0:12"


def export_harnesses():
    """C20: GFA / JSON export link structure on small graphs."""
    hs = []
    GV = "graph validity assumed: node-end k-mers pairwise distinct per side (MPHF precondition), extensions reciprocal"
    # every shape listed here was run to completion on the repaired tree (the 2-node K=4 shapes and
    # further 2-node JSON shapes need > 30 GB and are not registered)
    shapes = [("kmer3", (3,), True), ("kmer3", (4,), False), ("kmer3", (3, 4), True)]
    for tag, lens, q in shapes:
        ty, k = KT_BY_TAG[tag][1], KT_BY_TAG[tag][2]
        ls = "_".join(str(x) for x in lens)
        arr = "[%s]" % ", ".join(str(x) for x in lens)
        hs.append(H("c20_gfa__%s__l%s" % (tag, ls), ["C20"],
                    "crate::export_ops::gfa::<%s, %d, %d>(%s)" % (ty, len(lens), k + 1, arr), unwind=7, cap=1800, mem=10 if len(lens) == 1 else 14, cbmc_args=FMT_WRITE_UNWINDSET, ofmt="old",
                    stubs=["S1", "S2", "S4b", "S5", "S7", "S8"], tier="quick" if q else "thorough",
                    funcs=["DebruijnGraph::write_gfa", "DebruijnGraph::node_to_gfa", "Node::l_edges", "Node::r_edges", "DebruijnGraph::find_edges",
                           "DebruijnGraph::find_link", "DnaStringSlice::to_dna_string", "core::fmt::write"],
                    bounds="%d-node graph with node lengths %s over %s: all bases, all 256 extension sets per node, stranded/unstranded; fixed-array sink; %s" % (len(lens), lens, tag, GV)))
        if len(lens) == 2 or q:
            hs.append(H("c20_json__%s__l%s" % (tag, ls), ["C20"],
                        "crate::export_ops::json::<%s, %d, %d>(%s)" % (ty, len(lens), k + 1, arr), unwind=7, cap=1800, mem=12 if len(lens) == 1 else 28, cbmc_args=FMT_WRITE_UNWINDSET, ofmt="old",
                        stubs=["S1", "S2", "S4b", "S5", "S7", "S8"], tier="quick" if (q and len(lens) == 1) else "thorough",
                        funcs=["DebruijnGraph::to_json_rest", "Node::to_json", "Node::edges_to_json", "Node::r_edges", "DebruijnGraph::find_edges",
                               "DebruijnGraph::find_link", "<DnaStringSlice as Debug>::fmt", "<serde_json::Value as Display>::fmt", "core::fmt::write"],
                        bounds="%d-node graph with node lengths %s over %s: all bases, all 256 extension sets per node, stranded/unstranded; payload rendered as null; fixed-array sink; graph validity assumed: node-end k-mers pairwise distinct per side" % (len(lens), lens, tag)))
    return hs


def filter_harnesses():
    hs = []
    for m in (1, 2, 3, 4):
        hs.append(H("c05_count_filter__m%d" % m, ["C05"], "crate::filter_ops::count_filter::<%d>()" % m, unwind=m + 4,
                    funcs=["CountFilter::new", "CountFilter::summarize", "Exts::add"],
                    bounds="%d observations (all extension sets), all thresholds" % m))
        hs.append(H("c05_count_filter_set__m%d" % m, ["C05"], "crate::filter_ops::count_filter_set::<%d>()" % m, unwind=2 * m + 8, cap=600,
                    stubs=["S1"], tier="quick" if m <= 3 else "thorough",
                    funcs=["CountFilterSet::new", "CountFilterSet::summarize", "Vec::sort", "Vec::dedup"],
                    bounds="%d observations (all extension sets, all labels), all thresholds" % m))
    for tag, ns in (("kmer3", (3, 5)), ("kmer4", (4, 6)), ("kmer5", (5, 7)), ("kmer6", (8,)), ("kmer8", (10,))):
        ty, k = KT_BY_TAG[tag][1], KT_BY_TAG[tag][2]
        for n in ns:
            hs.append(H("c06_strand_lemma__%s__n%d" % (tag, n), ["C06", "C05"], "crate::filter_ops::strand_lemma::<%s, %d>()" % (ty, n),
                        unwind=n + 6, cap=600, tier="quick" if tag in ("kmer3", "kmer4") else "thorough",
                        funcs=["Vmer::iter_kmer_exts", "KmerExtsIter::next", "Kmer::min_rc_flip", "Exts::rc", "Mer::rc"],
                        bounds="all reads of %d bases (K=%d), all 256 boundary extension sets, every observation index" % (n, k)))
    return hs


def all_harnesses():
    hs = []
    hs += kmer_harnesses()
    hs += filter_harnesses()
    hs += step_harnesses()
    hs += walk_harnesses()
    hs += export_harnesses()
    hs += msp_harnesses()
    hs += iter_harnesses()
    hs += ascii_harnesses()
    hs += graph_harnesses()
    hs += slice_harnesses()
    hs += dnastring_harnesses()
    hs += exts_harnesses()
    hs += lmer_harnesses()
    names = set()
    for h in hs:
        assert h.name not in names, h.name
        names.add(h.name)
    return hs


PROPERTY_TEXT = {
    "C10": "Packed k-mers behave as length-K strings",
    "C11": "K-mer equality, order and hash are those of the string",
    "C12": "Reverse complement is coherent across all sequence types",
}


def gen_rs():
    out = ["// @generated by /verif/tools/spec.py — do not edit.",
           "#![allow(non_snake_case)]", ""]
    for h in all_harnesses():
        out.append(h.rust())
        out.append("")
    return "\n".join(out)


if __name__ == "__main__":
    import sys
    sys.stdout.write(gen_rs())
