#!/usr/bin/env python3
"""Prints the markdown table of seeded changes and which check caught them (DESIGN §12)."""
import json
import os
import re

V = os.path.dirname(os.path.dirname(os.path.abspath(__file__)))
rows = []
for n in sorted(os.listdir(os.path.join(V, "seeded"))):
    d = os.path.join(V, "seeded", n)
    try:
        m = json.load(open(os.path.join(d, "meta.json")))
    except Exception:
        continue
    det = {}
    if os.path.exists(os.path.join(d, "detect.json")):
        det = json.load(open(os.path.join(d, "detect.json")))
    caught = []
    for p, c in det.get("checks", {}).items():
        for v in c.get("violations", []):
            mm = re.search(r"replays/\w+/([\w]+)\.", v)
            caught.append("%s: `%s`" % (p, mm.group(1) if mm else "?"))
    summ = (m.get("summary") or "").replace("|", "/").replace("\n", " ")
    if len(summ) > 230:
        summ = summ[:227] + "..."
    need = (m.get("needs_to_manifest") or "").replace("|", "/").replace("\n", " ")
    if len(need) > 160:
        need = need[:157] + "..."
    status = "caught" if det.get("detected") else ("**missed**" if det else "not run")
    rows.append("| %s | %s | %s | %s | %s |" % (n, summ, need, status, "; ".join(sorted(set(caught)))[:300]))
print("| seed | change | needs | result | caught by (first harnesses) |")
print("|---|---|---|---|---|")
print("\n".join(rows))
