#!/usr/bin/env python3
"""eval_seeded.py [names...] : run the claimed check of each seeded change against /repo with the
change applied (git apply), then undo it.  Writes seeded/<name>/detect.json and prints a table."""
import json
import os
import subprocess
import sys
import time

VERIF = os.path.dirname(os.path.dirname(os.path.abspath(__file__)))
SEEDED = os.path.join(VERIF, "seeded")


def sh(cmd, **kw):
    return subprocess.run(cmd, shell=True, stdout=subprocess.PIPE, stderr=subprocess.STDOUT, text=True, **kw)


def main():
    names = sys.argv[1:] or sorted(os.listdir(SEEDED))
    tier = os.environ.get("SEED_TIER", "quick")
    rows = []
    for n in names:
        d = os.path.join(SEEDED, n)
        if not os.path.exists(os.path.join(d, "patch.diff")):
            continue
        meta = json.load(open(os.path.join(d, "meta.json")))
        prop = meta["property"]
        props = meta.get("check_properties", [prop])
        assert sh("git -C /repo status --porcelain -- src Cargo.toml").stdout.strip() == "", "/repo not clean"
        r = sh("git -C /repo apply %s" % os.path.join(d, "patch.diff"))
        if r.returncode != 0:
            rows.append((n, prop, "patch does not apply", 0))
            continue
        res = {}
        t0 = time.time()
        try:
            for p in props:
                only = meta.get("only", {}).get(p)
                cmd = "./check %s %s" % (p, tier) + (" --only '%s'" % only if only else "")
                c = sh(cmd, cwd=VERIF)
                viol = [l for l in c.stdout.splitlines() if l.startswith("VIOLATION")]
                inc = [l for l in c.stdout.splitlines() if l.startswith("INCONCLUSIVE")]
                res[p] = dict(exit=c.returncode, violations=viol, inconclusive=inc[:5], tail=c.stdout.splitlines()[-1:] )
        finally:
            sh("git -C /repo checkout -- .")
        det = any(v["exit"] == 1 for v in res.values())
        out = dict(name=n, property=prop, tier=tier, detected=det, checks=res, wall_s=round(time.time() - t0), at_repo_head=sh("git -C /repo rev-parse --short HEAD").stdout.strip())
        json.dump(out, open(os.path.join(d, "detect.json"), "w"), indent=1)
        rows.append((n, prop, "DETECTED" if det else "missed (exits %s)" % [v["exit"] for v in res.values()], out["wall_s"]))
        print(rows[-1], flush=True)
    print()
    for r in rows:
        print("%-12s %-5s %-40s %5ss" % r)


if __name__ == "__main__":
    main()
