#!/bin/sh
# run every claimed check in one tier, sequentially; summary to stdout
tier=${1:-quick}
cd "$(dirname "$0")/.." || exit 2
for p in $(python3 -c "import json;print(' '.join(c['property_id'] for c in json.load(open('MANIFEST.json'))['checks']))"); do
  start=$(date +%s)
  ./check $p $tier > logs/all_${p}_${tier}.out 2>&1
  rc=$?
  echo "$p $tier exit=$rc $(( $(date +%s) - start ))s $(tail -1 logs/all_${p}_${tier}.out)"
done
