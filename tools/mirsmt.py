#!/usr/bin/env python3
"""mirsmt — symbolic execution of a straight-line subset of rustc MIR into SMT-LIB2 bit-vectors.

Used for the AVX2 kernels of `DnaString::from_acgt_bytes` (which Kani cannot execute):
  bitops_avx2::convert_bases, bitops_avx2::pack_32_bases
and for the scalar tables they are compared against (base_to_bits, is_valid_base), all taken
from the nightly `-Zunpretty=mir` dump of /repo's CURRENT source on every run.

Supported MIR: integer/bool locals, tuples, `&[u8]` arguments (modelled as 32 symbolic bytes +
length), consts, copy/move, field projections, `as` IntToInt / PtrToPtr casts, binary ops
(Eq Ne Lt Le Gt Ge Add Sub Mul BitAnd BitOr BitXor Shl Shr and the *WithOverflow forms), Not,
PtrMetadata, aggregates, `assert`, `switchInt`, `goto`, `return`, calls to other translated
functions and to the AVX2 intrinsics listed in INTRINSICS (semantics transcribed from the
Intel SDM pseudo-code).  Anything else raises Unsupported -> the check is INCONCLUSIVE, never
a pass and never a violation.
"""
import re
import subprocess
import sys


class Unsupported(Exception):
    pass


# ------------------------------------------------------------------------------------------
# SMT term helpers (terms are strings; widths tracked separately)
def bv(val, w):
    val &= (1 << w) - 1
    if w % 4 == 0:
        return "#x%0*x" % (w // 4, val)
    return "#b" + format(val, "0%db" % w)


def ext(hi, lo, t):
    return "((_ extract %d %d) %s)" % (hi, lo, t)


def concat(parts):
    """parts: most significant first"""
    if len(parts) == 1:
        return parts[0]
    return "(concat %s)" % " ".join(parts)


def zext(t, frm, to):
    if to == frm:
        return t
    return "((_ zero_extend %d) %s)" % (to - frm, t)


def sext(t, frm, to):
    if to == frm:
        return t
    return "((_ sign_extend %d) %s)" % (to - frm, t)


def ite(c, a, b):
    return "(ite %s %s %s)" % (c, a, b)


INT_W = {"i8": 8, "u8": 8, "i16": 16, "u16": 16, "i32": 32, "u32": 32, "i64": 64, "u64": 64,
         "isize": 64, "usize": 64, "i128": 128, "u128": 128}


def is_signed(ty):
    return ty.startswith("i")


class Val:
    """A symbolic value: kind in {'int','bool','m256','tuple','slice','ptr','unit'}"""

    def __init__(self, kind, term=None, ty=None, fields=None):
        self.kind, self.term, self.ty, self.fields = kind, term, ty, fields

    def __repr__(self):
        return "Val(%s,%s,%s)" % (self.kind, self.ty, (self.term or "")[:40])


def v_int(term, ty):
    return Val("int", term, ty)


def v_bool(term):
    return Val("bool", term, "bool")


def v_m256(term):
    return Val("m256", term, "__m256i")


# ------------------------------------------------------------------------------------------
# AVX2 intrinsic semantics over BV256 (byte i = bits [8i+7 : 8i])
def byte(t, i):
    return ext(8 * i + 7, 8 * i, t)


def lane16(t, i):
    return ext(16 * i + 15, 16 * i, t)


def q64(t, i):
    return ext(64 * i + 63, 64 * i, t)


def i_set_epi8(args, generics):
    # _mm256_set_epi8(e31, ..., e0): e0 is the least significant byte
    assert len(args) == 32
    return v_m256(concat([a.term for a in args]))


def i_set_epi64x(args, generics):
    assert len(args) == 4
    return v_m256(concat([a.term for a in args]))


def i_set1_epi8(args, generics):
    return v_m256(concat([args[0].term] * 32))


def i_setzero(args, generics):
    return v_m256(bv(0, 256))


def i_loadu(args, generics):
    p = args[0]
    if p.kind != "ptr" or p.fields is None:
        raise Unsupported("loadu from a pointer that is not the start of the input slice")
    return v_m256(p.fields["content"])


def shift16(t, imm, left):
    parts = []
    for i in reversed(range(16)):
        l = lane16(t, i)
        if imm > 15:
            parts.append(bv(0, 16))
        elif left:
            parts.append("(bvshl %s %s)" % (l, bv(imm, 16)))
        else:
            parts.append("(bvlshr %s %s)" % (l, bv(imm, 16)))
    return concat(parts)


def i_srli_epi16(args, generics):
    return v_m256(shift16(args[0].term, generics[0], False))


def i_slli_epi16(args, generics):
    return v_m256(shift16(args[0].term, generics[0], True))


def i_and(args, generics):
    return v_m256("(bvand %s %s)" % (args[0].term, args[1].term))


def i_andnot(args, generics):
    return v_m256("(bvand (bvnot %s) %s)" % (args[0].term, args[1].term))


def i_shuffle_epi8(args, generics):
    a, b = args[0].term, args[1].term
    out = []
    for i in reversed(range(32)):
        lane = (i // 16) * 128
        src = ext(lane + 127, lane, a)
        idx = byte(b, i)
        sh = concat([bv(0, 121), ext(3, 0, idx), bv(0, 3)])  # (idx & 15) * 8 as BV128
        sel = ext(7, 0, "(bvlshr %s %s)" % (src, sh))
        out.append(ite("(= %s #b1)" % ext(7, 7, idx), bv(0, 8), sel))
    return v_m256(concat(out))


def i_cmpeq_epi8(args, generics):
    a, b = args[0].term, args[1].term
    out = [ite("(= %s %s)" % (byte(a, i), byte(b, i)), bv(0xff, 8), bv(0, 8)) for i in reversed(range(32))]
    return v_m256(concat(out))


def i_testc(args, generics):
    a, b = args[0].term, args[1].term
    return v_int(ite("(= (bvand (bvnot %s) %s) %s)" % (a, b, bv(0, 256)), bv(1, 32), bv(0, 32)), "i32")


def i_permute4x64(args, generics):
    a, imm = args[0].term, generics[0]
    out = [q64(a, (imm >> (2 * i)) & 3) for i in reversed(range(4))]
    return v_m256(concat(out))


def unpack8(a, b, hi):
    out = []
    for lane in (1, 0):
        base = lane * 16 + (8 if hi else 0)
        part = []
        for i in reversed(range(8)):
            part.append(byte(b, base + i))
            part.append(byte(a, base + i))
        out.extend(part)
    return concat(out)


def i_unpacklo_epi8(args, generics):
    return v_m256(unpack8(args[0].term, args[1].term, False))


def i_unpackhi_epi8(args, generics):
    return v_m256(unpack8(args[0].term, args[1].term, True))


def i_movemask_epi8(args, generics):
    a = args[0].term
    return v_int(concat([ext(8 * i + 7, 8 * i + 7, a) for i in reversed(range(32))]), "i32")


INTRINSICS = {
    "_mm256_set_epi8": i_set_epi8,
    "_mm256_set_epi64x": i_set_epi64x,
    "_mm256_set1_epi8": i_set1_epi8,
    "_mm256_setzero_si256": i_setzero,
    "_mm256_loadu_si256": i_loadu,
    "_mm256_srli_epi16": i_srli_epi16,
    "_mm256_slli_epi16": i_slli_epi16,
    "_mm256_and_si256": i_and,
    "_mm256_andnot_si256": i_andnot,
    "_mm256_shuffle_epi8": i_shuffle_epi8,
    "_mm256_cmpeq_epi8": i_cmpeq_epi8,
    "_mm256_testc_si256": i_testc,
    "_mm256_permute4x64_epi64": i_permute4x64,
    "_mm256_unpacklo_epi8": i_unpacklo_epi8,
    "_mm256_unpackhi_epi8": i_unpackhi_epi8,
    "_mm256_movemask_epi8": i_movemask_epi8,
}


# ------------------------------------------------------------------------------------------
# MIR parsing
class Func:
    def __init__(self, name, params, ret, locals_, blocks):
        self.name, self.params, self.ret, self.locals, self.blocks = name, params, ret, locals_, blocks


def split_top(s, sep=","):
    out, depth, cur = [], 0, ""
    for ch in s:
        if ch in "([{<":
            depth += 1
        elif ch in ")]}>":
            depth -= 1
        if ch == sep and depth == 0:
            out.append(cur.strip())
            cur = ""
        else:
            cur += ch
    if cur.strip():
        out.append(cur.strip())
    return out


def parse_functions(mir_text, wanted):
    """-> {short_name: Func} for the functions whose name ends with one of `wanted`."""
    funcs = {}
    lines = mir_text.splitlines()
    i = 0
    while i < len(lines):
        m = re.match(r"^fn (.+?)\((.*)\) -> (.+) \{$", lines[i])
        if not m:
            i += 1
            continue
        full = m.group(1)
        short = full.split("::")[-1]
        j = i + 1
        body = []
        while j < len(lines) and lines[j] != "}":
            body.append(lines[j])
            j += 1
        if short in wanted and short not in funcs:
            params = []
            for p in split_top(m.group(2)):
                pm = re.match(r"_(\d+): (.+)", p)
                params.append((int(pm.group(1)), pm.group(2)))
            locals_ = {0: m.group(3)}
            for n, t in params:
                locals_[n] = t
            blocks = {}
            cur = None
            for ln in body:
                s = ln.strip()
                lm = re.match(r"let (?:mut )?_(\d+): (.+);$", s)
                if lm:
                    locals_[int(lm.group(1))] = lm.group(2)
                    continue
                bm = re.match(r"bb(\d+)(?: \(cleanup\))?: \{$", s)
                if bm:
                    cur = int(bm.group(1))
                    blocks[cur] = []
                    continue
                if s == "}" or not s or s.startswith("scope") or s.startswith("debug"):
                    if s == "}":
                        pass
                    continue
                if cur is not None:
                    blocks[cur].append(s)
            funcs[short] = Func(full, params, m.group(3), locals_, blocks)
        i = j + 1
    return funcs


# ------------------------------------------------------------------------------------------
# symbolic execution
class Path:
    def __init__(self, cond, env):
        self.cond, self.env = cond, env


class Exec:
    def __init__(self, funcs):
        self.funcs = funcs
        self.defs = []      # (name, sort, term) emitted as define-fun, in order
        self.n = 0
        self.panics = []    # (cond, message)
        self.encoded = []   # function names actually executed

    def fresh(self, term, w=None, boolean=False):
        """name a sub-term so that the SMT text stays linear in size"""
        self.n += 1
        name = "t%d" % self.n
        sort = "Bool" if boolean else "(_ BitVec %d)" % w
        self.defs.append((name, sort, term))
        return name

    def name_val(self, v):
        if v.kind == "int":
            return v_int(self.fresh(v.term, INT_W[v.ty]), v.ty)
        if v.kind == "bool":
            return v_bool(self.fresh(v.term, boolean=True))
        if v.kind == "m256":
            return v_m256(self.fresh(v.term, 256))
        if v.kind == "tuple":
            return Val("tuple", fields=[self.name_val(f) for f in v.fields])
        return v

    # ---- operands / places
    def const(self, s):
        m = re.match(r"const (-?\d+)_(\w+)$", s)
        if m:
            return v_int(bv(int(m.group(1)), INT_W[m.group(2)]), m.group(2))
        if s == "const true":
            return v_bool("true")
        if s == "const false":
            return v_bool("false")
        raise Unsupported("constant " + s)

    def place(self, env, s):
        s = s.strip()
        m = re.match(r"^_(\d+)$", s)
        if m:
            n = int(m.group(1))
            if n not in env:
                raise Unsupported("read of unassigned local _%d" % n)
            return env[n]
        m = re.match(r"^\((.+)\.(\d+): [^)]+\)$", s)
        if m:
            base = self.place(env, m.group(1))
            if base.kind != "tuple":
                raise Unsupported("field of non-tuple " + s)
            return base.fields[int(m.group(2))]
        raise Unsupported("place " + s)

    def operand(self, env, s):
        s = s.strip()
        if s.startswith("const "):
            return self.const(s)
        if s.startswith("copy ") or s.startswith("move "):
            return self.place(env, s[5:])
        if s.startswith("!"):
            v = self.operand(env, s[1:])
            if v.kind != "bool":
                raise Unsupported("! on non-bool")
            return v_bool("(not %s)" % v.term)
        raise Unsupported("operand " + s)

    def cast(self, v, ty):
        if v.kind == "bool" and ty in INT_W:
            return v_int(ite(v.term, bv(1, INT_W[ty]), bv(0, INT_W[ty])), ty)
        if v.kind != "int" or ty not in INT_W:
            raise Unsupported("cast %s -> %s" % (v.ty, ty))
        fw, tw = INT_W[v.ty], INT_W[ty]
        if tw <= fw:
            return v_int(ext(tw - 1, 0, v.term) if tw < fw else v.term, ty)
        return v_int(sext(v.term, fw, tw) if is_signed(v.ty) else zext(v.term, fw, tw), ty)

    def binop(self, op, a, b):
        if a.kind == "bool" and b.kind == "bool" and op in ("Eq", "Ne", "BitAnd", "BitOr", "BitXor"):
            t = {"Eq": "(= %s %s)", "Ne": "(not (= %s %s))", "BitAnd": "(and %s %s)", "BitOr": "(or %s %s)",
                 "BitXor": "(xor %s %s)"}[op] % (a.term, b.term)
            return v_bool(t)
        if a.kind != "int" or b.kind != "int":
            raise Unsupported("binop %s on %s,%s" % (op, a.kind, b.kind))
        w, sg = INT_W[a.ty], is_signed(a.ty)
        if op in ("Shl", "Shr"):
            # shift amount may have another type: zero/sign-extend or truncate to w (mod-2^w semantics; the
            # overflow assert that guards it is executed separately)
            bw = INT_W[b.ty]
            amt = b.term if bw == w else (ext(w - 1, 0, b.term) if bw > w else (sext(b.term, bw, w) if is_signed(b.ty) else zext(b.term, bw, w)))
            amt = "(bvand %s %s)" % (amt, bv(w - 1, w))
            if op == "Shl":
                return v_int("(bvshl %s %s)" % (a.term, amt), a.ty)
            return v_int(("(bvashr %s %s)" if sg else "(bvlshr %s %s)") % (a.term, amt), a.ty)
        if a.ty != b.ty:
            raise Unsupported("binop %s on %s,%s" % (op, a.ty, b.ty))
        x, y = a.term, b.term
        if op == "Eq":
            return v_bool("(= %s %s)" % (x, y))
        if op == "Ne":
            return v_bool("(not (= %s %s))" % (x, y))
        cmpo = {"Lt": ("bvslt", "bvult"), "Le": ("bvsle", "bvule"), "Gt": ("bvsgt", "bvugt"), "Ge": ("bvsge", "bvuge")}
        if op in cmpo:
            return v_bool("(%s %s %s)" % (cmpo[op][0 if sg else 1], x, y))
        ar = {"Add": "bvadd", "Sub": "bvsub", "Mul": "bvmul", "BitAnd": "bvand", "BitOr": "bvor", "BitXor": "bvxor"}
        if op in ar:
            return v_int("(%s %s %s)" % (ar[op], x, y), a.ty)
        m = re.match(r"(Add|Sub|Mul)WithOverflow$", op)
        if m:
            o = {"Add": "bvadd", "Sub": "bvsub", "Mul": "bvmul"}[m.group(1)]
            res = "(%s %s %s)" % (o, x, y)
            # overflow: compute in 2w bits and compare
            e = sext if sg else zext
            wide = "(%s %s %s)" % (o, e(x, w, 2 * w), e(y, w, 2 * w))
            ovf = "(not (= %s %s))" % (wide, e(res, w, 2 * w))
            return Val("tuple", fields=[v_int(res, a.ty), v_bool(ovf)])
        raise Unsupported("binop " + op)

    def rvalue(self, env, s):
        s = s.strip()
        m = re.match(r"^(\w+)\((.*)\)$", s)
        if m and m.group(1) in ("Eq", "Ne", "Lt", "Le", "Gt", "Ge", "Add", "Sub", "Mul", "BitAnd", "BitOr", "BitXor",
                                "Shl", "Shr", "AddWithOverflow", "SubWithOverflow", "MulWithOverflow"):
            a, b = split_top(m.group(2))
            return self.binop(m.group(1), self.operand(env, a), self.operand(env, b))
        if m and m.group(1) == "Not":
            v = self.operand(env, m.group(2))
            if v.kind == "bool":
                return v_bool("(not %s)" % v.term)
            return v_int("(bvnot %s)" % v.term, v.ty)
        if m and m.group(1) == "PtrMetadata":
            v = self.operand(env, m.group(2))
            if v.kind != "slice":
                raise Unsupported("PtrMetadata of non-slice")
            return v_int(v.fields["len"], "usize")
        m = re.match(r"^(.+) as (.+) \((\w+)\)$", s)
        if m:
            v = self.operand(env, m.group(1))
            if m.group(3) == "IntToInt":
                return self.cast(v, m.group(2))
            if m.group(3) == "PtrToPtr":
                return v
            raise Unsupported("cast kind " + m.group(3))
        if s.startswith("(") and s.endswith(")") and not re.match(r"^\(.+\.\d+: ", s):
            return Val("tuple", fields=[self.operand(env, p) for p in split_top(s[1:-1])])
        return self.operand(env, s)

    # ---- calls
    def call(self, env, callee, args):
        gm = re.search(r"::<(-?\d+)>$", callee)
        short = (callee[:gm.start()] if gm else callee).split("::")[-1]
        generics = [int(gm.group(1))] if gm else []
        if short in INTRINSICS:
            if short not in self.encoded:
                self.encoded.append(short)
            return INTRINSICS[short](args, generics)
        if short == "as_ptr" and args and args[0].kind == "slice":
            return Val("ptr", fields=args[0].fields)
        if short in self.funcs:
            return self.run(short, args)
        raise Unsupported("call to " + callee)

    # ---- one function, all paths
    def run(self, fname, args, cond="true"):
        f = self.funcs[fname]
        if f.name not in self.encoded:
            self.encoded.append(f.name)
        env0 = {}
        for (n, _t), a in zip(f.params, args):
            env0[n] = a
        results = []   # (cond, value)
        work = [(0, cond, env0, 0)]
        steps = 0
        while work:
            bb, pc, env, depth = work.pop()
            steps += 1
            if steps > 20000 or depth > 5000:
                raise Unsupported("path explosion / loop in " + fname)
            env = dict(env)
            stmts = f.blocks[bb]
            for st in stmts[:-1]:
                self.stmt(env, st)
            term = stmts[-1]
            if term == "return;":
                results.append((pc, env.get(0, Val("unit"))))
                continue
            m = re.match(r"^goto -> bb(\d+);$", term)
            if m:
                work.append((int(m.group(1)), pc, env, depth + 1))
                continue
            m = re.match(r"^switchInt\((.+?)\) -> \[(.+)\];$", term)
            if m:
                v = self.operand(env, m.group(1))
                taken = []
                for arm in split_top(m.group(2)):
                    k, tgt = arm.split(": bb")
                    tgt = int(tgt)
                    if k == "otherwise":
                        c = "(and %s)" % " ".join(["(not %s)" % t for t in taken]) if taken else "true"
                    else:
                        if v.kind == "bool":
                            c = v.term if int(k) != 0 else "(not %s)" % v.term
                        else:
                            c = "(= %s %s)" % (v.term, bv(int(k), INT_W[v.ty]))
                        taken.append(c)
                    work.append((tgt, self.fresh("(and %s %s)" % (pc, c), boolean=True), env, depth + 1))
                continue
            m = re.match(r"^assert\((.+?), \"(.*?)\".*\) -> \[success: bb(\d+), unwind.*\];$", term)
            if m:
                c = self.operand(env, m.group(1))
                self.panics.append(("(and %s (not %s))" % (pc, c.term), fname + ": " + m.group(2)))
                work.append((int(m.group(3)), self.fresh("(and %s %s)" % (pc, c.term), boolean=True), env, depth + 1))
                continue
            m = re.match(r"^_(\d+) = (.+?)\((.*)\) -> \[return: bb(\d+), unwind.*\];$", term)
            if m:
                callee = m.group(2)
                if "panicking::panic" in callee:
                    self.panics.append((pc, fname + ": explicit panic"))
                    continue
                args2 = [self.operand(env, a) for a in split_top(m.group(3))] if m.group(3).strip() else []
                r = self.call(env, callee, args2)
                env[int(m.group(1))] = self.name_val(r)
                work.append((int(m.group(4)), pc, env, depth + 1))
                continue
            m = re.match(r"^_(\d+) = (.+?)\((.*)\) -> unwind.*;$", term)
            if m and "panicking::panic" in m.group(2):
                self.panics.append((pc, fname + ": " + m.group(3)[:60]))
                continue
            if term.startswith("unreachable"):
                continue
            raise Unsupported("terminator " + term[:120])
        return self.merge(results)

    def stmt(self, env, st):
        if st.startswith("StorageLive") or st.startswith("StorageDead") or st.startswith("nop") or st.startswith("FakeRead") \
                or st.startswith("PlaceMention") or st.startswith("AscribeUserType") or st.startswith("Retag"):
            return
        m = re.match(r"^_(\d+) = (.+);$", st)
        if m:
            env[int(m.group(1))] = self.name_val(self.rvalue(env, m.group(2)))
            return
        m = re.match(r"^\(_(\d+)\.(\d+): [^)]+\) = (.+);$", st)
        if m:
            raise Unsupported("field assignment " + st[:80])
        raise Unsupported("statement " + st[:120])

    def merge(self, results):
        if not results:
            raise Unsupported("no returning path")
        cond0, v0 = results[-1]
        out = v0
        for c, v in reversed(results[:-1]):
            out = self.merge2(c, v, out)
        return out

    def merge2(self, c, a, b):
        if a.kind == "tuple":
            return Val("tuple", fields=[self.merge2(c, x, y) for x, y in zip(a.fields, b.fields)])
        if a.kind == "bool":
            return v_bool(ite(c, a.term, b.term))
        if a.kind in ("int", "m256"):
            return Val(a.kind, ite(c, a.term, b.term), a.ty)
        return a

    def preamble(self):
        return "\n".join("(define-fun %s () %s %s)" % d for d in self.defs)


# ------------------------------------------------------------------------------------------
# solvers
def run_solver(cmd, text, timeout):
    try:
        p = subprocess.run(cmd, input=text, stdout=subprocess.PIPE, stderr=subprocess.STDOUT, text=True, timeout=timeout)
        return p.stdout
    except subprocess.TimeoutExpired:
        return "timeout"


def decide(pre, neg, getv=None, timeout=300):
    """Two independent solvers on the same query `pre ∧ neg`.
    z3 (logic ALL, model-producing) and cvc5 (QF_BV, eager bit-blasting, no models).
    -> {solver: (verdict, output)}; verdict in sat/unsat/unknown/timeout/error.  An `(error` line
    anywhere makes that solver's answer `error` (= inconclusive)."""
    res = {}
    z3_text = pre + "(assert %s)\n(check-sat)\n" % neg
    cvc5_text = pre.replace("(set-option :produce-models true)\n", "").replace("(set-logic ALL)", "(set-logic QF_BV)") \
        + "(assert %s)\n(check-sat)\n" % neg
    for name, cmd, text in (("z3", ["z3", "-in"], z3_text),
                            ("cvc5", ["cvc5", "--lang", "smt2", "--bitblast=eager"], cvc5_text)):
        out = run_solver(cmd, text, timeout)
        first = out.strip().splitlines()[0].strip() if out.strip() else "error"
        if first == "timeout":
            res[name] = ("timeout", out)
        elif "(error" in out or first not in ("sat", "unsat", "unknown"):
            res[name] = ("error", out)
        else:
            res[name] = (first, out)
    if getv and res["z3"][0] == "sat":
        out = run_solver(["z3", "-in"], z3_text + getv + "\n", timeout)
        res["z3"] = ("sat", out)
    return res


if __name__ == "__main__":
    print(__doc__)
