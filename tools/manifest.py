#!/usr/bin/env python3
"""Writes /verif/MANIFEST.json from the per-property claim table below."""
import json
import os

VERIF = os.path.dirname(os.path.dirname(os.path.abspath(__file__)))

TECH_KANI = "bounded model checking of the compiled code: Kani 0.68 proof harnesses over kani::any() inputs, CBMC 6.11 + CaDiCaL verdict, unwinding assertions on, cover-point vacuity witnesses, native replay of counterexamples"

CLAIMS = {
    "C10": dict(
        text="Solver verdict (CBMC/CaDiCaL via Kani) over the real compiled k-mer code: for each of the 19 shipped k-mer types plus VarIntKmer<u8,K4>, every Mer/Kmer operation is proved equal, position by position, to the same operation on the K-letter string, for ALL storage values, positions, bases, run lengths and 64-bit packed values. Bounded only by the instantiation list (to_string: K<=4; get_extensions: 4 types).",
        note="Trusted: Kani/CBMC/CaDiCaL; the harness-side string oracle (layout base i = (storage >> 2(K-1-i)) & 3). Assumed: documented preconditions (pos+n<=K, n in 1..=32, bases<4, rank<4^K, unused lanes zero — the latter proved inductive under C11). Stub S1 on the two heap-backed renderings. Debug formatting is not covered.",
        ref="DESIGN.md §4 C10"),
    "C11": dict(
        text="Induction over operation histories, three solver lemmas per k-mer type: (L1) 'unused lanes are zero' is established by every constructor and preserved by every value-producing operation for all in-range arguments; (L2) under it ==, cmp, partial_cmp, <, >= equal the lexicographic comparison of the strings for all pairs; (L3) the bytes fed to a recording Hasher are equal for equal strings and differ for different strings (so no hasher, seed or perfect-hash level can conflate two keys). All 20 instantiations, all values.",
        note="Trusted: Kani/CBMC/CaDiCaL, the string oracle. The step from L1-L3 to 'any finite sequence of operations' is the usual induction (paper step). std's sort/dedup/binary_search and the perfect hash are not executed: they are corollaries of a lawful Ord/Eq/Hash.",
        ref="DESIGN.md §4 C11"),
}

CLAIMS.update({
    "C12": dict(
        text="Solver verdicts over the real code for every sequence type: k-mers (20 instantiations, all values: positional law, involution, min_rc/min_rc_flip/is_palindrome, odd K never palindromic), all 256 extension sets (rc/complement/reverse, coherence with k-mer rc for 8 k-mer types), Lmer<[u64;1..3]> (thorough ..6) for every length 0..=max_len, DnaString::rc at lengths 0,1,2,31,32,33 (thorough 63,64,65), DnaStringSlice::rc from every slice state, and commutation of rc with k-mer extraction on slices.",
        note="Bounds: strings <= 96 bases; DnaString::rc only at the listed concrete lengths (symbolic content); slice commutation for Kmer4/Kmer32 in quick, all 19 K in thorough. Trusted: Kani/CBMC/CaDiCaL, string oracles, INV_S/INV_L representation invariants (proved inductive under C14/C17).",
        ref="DESIGN.md §4 C12"),
    "C13": dict(
        text="For every container the k-mer read at position i is proved (solver, all contents) to equal bases i..i+K: DnaString (1-3 blocks, every alignment of every K across 32-base block boundaries), DnaStringSlice forward and reverse-complemented at every offset, Lmer<[u64;1..3]>, first/last/term accessors; INV of the result.",
        note="Quick tier: 4 k-mer types on DnaString, 2 on slices, 8 on Lmer; thorough: all 19. Strings <= 96 bases. Trusted: Kani/CBMC/CaDiCaL, string oracle.",
        ref="DESIGN.md §4 C13"),
    "C14": dict(
        text="Induction over operation histories with the representation invariant INV_S (storage.len()==ceil(len/32), padding bits zero): every constructor establishes it with the right contents; push/set_mut/clear/extend/push_bytes each preserve it from an ARBITRARY INV_S state and change exactly the specified bases; observers (len,get,iter,to_bytes,to_ascii_vec,reverse,rc,ndiffs) and ==/cmp/hash on two arbitrary INV_S states equal those of the plain base vector; PackedDnaStringSet::add/get/slice.",
        note="Bounds: pre-states <= 96 bases (block count concrete 0..3, contents and in-block length symbolic); extend: pre-lengths {0,1,30,31,32,33,63,64,65} x {0,1,3} items; push_bytes: 2 bytes; renderings: lengths <= 5; from_dna_string: <= 1 char (UTF-8 decoding of symbolic text explodes); Display for lengths 1 and 3 (stub S4). The step 'one-step lemmas => all histories' is the usual induction. Stub S1 on renderings.",
        ref="DESIGN.md §4 C14"),
    "C15": dict(
        text="From an arbitrary (string, slice-record) state: get/len/iter, prefix/suffix/slice constructors, slice-of-slice and rc (closed under both, hence any nesting/interleaving by induction), ==, get_kmer, bytes/ascii/to_dna_string/to_owned, Display and Debug into a fixed sink, and hamming_dist (short lengths: fully symbolic pairs at every offset/orientation; 31..65: whole-string pairs; length 33 with the two starts drawn independently from {0,1,32,33}; >=1023: sparse symbolic differences) all equal the reference view of the plain base vector.",
        note="Bounds: strings <= 96 bases (33/65 blocks for the long distance queries); rendering lengths <= 3 (5 thorough); Debug with concrete start; long distances only with <= 2 differing positions and whole-string forward slices. Stubs S1, S4. Two genuine defects were found by these checks and fixed in /repo (see known_findings.txt).",
        ref="DESIGN.md §4 C15"),
    "C17": dict(
        text="For Lmer<[u64;N]>, N=1..3 (thorough ..6), from every raw state satisfying INV_L (every length 0..=max_len, all contents): new/len, get after set_mut with frame, set_slice_mut for all pos/n<=32/value including runs crossing a word boundary and runs touching the length-byte word, rc, from_slice, get_kmer for every K that fits, ==/hash agree with (length, bases); INV_L is preserved by every operation.",
        note="No bound beyond N. Trusted: Kani/CBMC/CaDiCaL, string oracle, raw-state hook verif_from_raw (add-only).",
        ref="DESIGN.md §4 C17"),
    "C18": dict(
        text="Two-node graphs built through the public API over the boomphf model (all bases symbolic, both nodes iterated): every sequence of three calls, each next() or nth(n) with n in 0..=7, yields exactly the reference cursor's k-mer or None once the cursor passes the end, never panics, and reports the exact count up front; graph iteration visits each node once in order.",
        note="Bounds: K in {3,4,5}, node 0 has 4 or 7 k-mers, node 1 has 1; 3 operations. boomphf replaced by model M1 (key-verified lookup; the builder is not executed). The defect in nth(n>4) was found by this check and fixed in /repo. size_hint after consumption is not constrained (the property only speaks of the count 'up front').",
        ref="DESIGN.md §4 C18"),
})

CLAIMS.update({
    "C16": dict(
        text="Two engines. (1) mirsmt: the nightly MIR of bitops_avx2::{convert_bases, pack_32_bases} and of the scalar tables is translated on every run to SMT-LIB2 bit-vectors (AVX2 intrinsics modelled from the Intel SDM) and z3 and cvc5 must both answer unsat for: a panic is reachable / packed != scalar packing / a lane != base_to_bits / validity flag != all-valid — over ALL 256^32 blocks. (2) Kani: all 256 inputs of every scalar table; from_acgt_bytes on every byte string of lengths 0,1,32,33,65 (thorough: 31,63,64,95,96,97) on the scalar path and on the vector path's chunking with the kernels replaced by their SMT-proved scalar spec; Kmer::from_ascii for all 20 k-mer types; hashed-N (determinism, ACGT untouched, substituted base < 4, and dependence on (name, position) only: two 2-byte reads sharing a non-ACGT byte get the same base there) and strict constructors on tiny inputs.",
        note="Trusted: my MIR-subset translator and intrinsic semantics (validated each run against the real binary on the repo's test vectors + seeded random blocks; any unsupported MIR, `(error` line or solver disagreement = inconclusive), z3 4.8.12, cvc5 1.0, Kani/CBMC. Stubs S1, S3a/S3b (CPU feature detection), kernel spec stubs. Outside: non-ASCII &str input, real cpuid dispatch, from_dna_string beyond 1 char, hashed-N beyond 1 byte (quick) / 3 bytes (thorough), strict constructor beyond 2 chars.",
        ref="DESIGN.md §4 C16", engine="kani+mirsmt",
        technique="MIR-to-SMT-LIB2 symbolic execution of the AVX2 kernels decided by z3 and cvc5 (all 256^32 blocks) + Kani/CBMC bounded model checking of the scalar and chunking code"),
})

PART = " PARTIAL CLAIM: "
CLAIMS.update({
    "C01": dict(
        text="The unit every output node comes from — one call of the private CompressFromHash::build_node, driven through an add-only hook from an ARBITRARY valid table (2-3 rows: all keys, extension sets, payloads), availability subset containing the seed, strandedness and seed row — is proved against a reference walk written in string terms: the node sequence has one base per member beyond the first; the seed and every walked k-mer sit at exactly the offset of their position in the chain, in their walked orientation (so consecutive members overlap by K-1 and follow the extension that was walked); no row outside the chain is consumed and every chain member leaves the availability set (hence a k-mer can enter only one node); the payload equals the caller's reduction over exactly the member rows (commutative test reduction, and the payload-equality spec); the node's extensions are the outward extensions of its two end k-mers in node orientation. extend_kmer (the whole walk) is decided separately." + PART + "the outer seed loop of compress_kmers (`for every still-available row: build_node, add`), BaseGraph::add of a symbolic-length sequence into the packed store (its one-step form is decided under C14), compress_kmers_no_exts (HashSet) and the finished graph are NOT executed: compress_kmers on 2 rows exceeds 30 GB in CBMC.",
        note="Bounds: tables of 2-3 rows over Kmer4 (quick), 2-3 rows over Kmer3/4 and 2 rows over Kmer5/6 (thorough). boomphf = model M1. Assumed table validity: distinct keys, canonical when unstranded, reciprocal extension on every examined link (the code's documented unreachable panic). Scratch deque pre-reserved by the harness (capacity unobservable) with VecDeque::grow stubbed to an asserted-unreachable (S6). Stubs S1, S2, S6.",
        ref="DESIGN.md §5 C01"),
    "C20": dict(
        text="GFA and JSON export of 1- and 2-node graphs (all bases, all 256 extension sets per node, stranded and unstranded) into a streaming oracle sink, decided against a reference adjacency matrix computed in string terms: GFA — header, every node listed exactly once with its exact sequence, every L line well formed with overlap K-1 and denoting an adjacency of the graph with the right orientation signs, every adjacency (self-links on either side included) listed, and listed once unless it touches a palindromic single-k-mer node; JSON — token-level well-formedness (a value only after [ { , : ; a comma only after a value or a close and never before a close; balanced brackets), every node listed once, the link objects are exactly the right-going adjacencies, each once." + PART + "serde round-trips of k-mers / strings / extension sets / graphs (serde_json and bincode on symbolic data), DOT export, tags, file I/O, graphs with >= 3 nodes or ids >= 8, and the empty graph are NOT covered; the 2-node JSON query needs ~20 GB and runs in the thorough tier only (the quick tier decides JSON on 1-node graphs and GFA on 1- and 2-node graphs).",
        note="Bounds: K in {3,4}; node lengths K..K+1; 1-2 nodes. Graph validity assumed: node-end k-mers pairwise distinct per side (MPHF precondition; model M1), extensions reciprocal (GFA only). Stubs S1, S2, S5 (String::push ASCII, asserted), S7 (SmallVec spill, asserted unreachable), S8 (<usize as Display>::fmt for values < 8, asserted, case split into literals), S4b (Formatter::pad over the alphabet ACGT+-LR, asserted, case split into literals); payload rendered as JSON null. CBMC per-loop bound for core::fmt::write's template loop (--unwindset, 12) with global unwind 7; unwinding assertions on; run with --output-format old (CBMC's plain result list) and replayed natively from CBMC's text trace. Two genuine defects were found by these checks and fixed in /repo (known_findings.txt).",
        ref="DESIGN.md §5 C20"),
    "C02": dict(
        text="The join decision every node is built from — one call of the private try_extend_kmer, driven through an add-only hook from an ARBITRARY valid table (1-3 rows, all keys/extension sets/payloads), availability subset, strandedness, direction and start row — is proved to return Unique(next, dir, exts) exactly when the link is the sole extension on both facing sides, joins two distinct non-palindromic k-mers, the target is present and available and the join predicate (always-true and payload-equality) accepts; otherwise Terminal with the walking side's extensions. The growth loop itself (extend_kmer, via a second hook) is proved, on 2-3-row tables, to continue exactly while that decision says Unique, to visit the rows the reference walk visits, to remove exactly those rows from the availability set and to report the last k-mer's walking-side extensions — so a node ends only where no joinable link is left (maximality), and build_node (C01) walks left then right from the seed." + PART + "the outer seed loop, cycle cutting on whole inputs and uniqueness of the global decomposition are NOT executed (compress_kmers on 2 rows > 30 GB in CBMC).",
        note="Bounds: tables of 1-3 rows over Kmer4 / 2 rows over Kmer3 (quick), also Kmer2,5,6 with 3 rows (thorough). boomphf = model M1 (key-verified lookup). Assumed table validity: distinct keys, canonical when unstranded, reciprocal extension on the examined link (the code's documented unreachable panic). Stubs S1, S2.",
        ref="DESIGN.md §5 C02"),
    "C03": dict(
        text="find_link on 2-3-node graphs for ALL 4^K query k-mers (present and absent), both directions, stranded and unstranded: Some((id, side, flip)) iff that node end spells the query (or its reverse complement, unstranded only), with the documented precedence, None otherwise; get_valid_exts/fix_exts keep a bit iff set and resolving to a valid node; remove_censored_exts and _sharded on every sorted table of <= 3 rows keep exactly the bits whose canonical target is valid / not (present-in-all-kmers and invalid) and change nothing else; the Exts algebra for all 256 sets." + PART + "equality of the edge set with the input's (K+1)-mers, u<->v symmetry on built graphs, and the best-path queries (HashSet/VecDeque/float scores) are NOT covered; find_edges / Node::{l_edges,r_edges,edges} return exactly the set extension bits that resolve, in base order (2-node graphs with node lengths (3,4) and (3,5) quick — the latter lets one side reach the same neighbour through both of its ends —, further shapes thorough; SmallVec heap spill stubbed to an asserted-unreachable, S7).",
        note="Bounds: K in {3,4}, node lengths K..K+1, graphs of 2 nodes (quick) / 3 nodes (thorough); censoring tables over Kmer4 (quick), Kmer3/5/8 (thorough). boomphf = model M1; node-end k-mers assumed pairwise distinct per side (MPHF precondition). Stubs S1, S2.",
        ref="DESIGN.md §5 C03"),
    "C05": dict(
        text="Decided on real code: CountFilter::summarize and CountFilterSet::summarize over every sequence of <= 3 (thorough 4) observations for all thresholds (validity flag, extension union, count, sorted de-duplicated labels); the observation iterator iter_kmer_exts (true flanks, boundary sets only at the read ends) for all reads up to K+3 bases; and the per-observation canonicalisation lemma built from the real min_rc_flip / Exts::rc." + PART + "the composition inside filter_kmers (256 bucket Vecs, stable sort, group_by, pass planner, independence of the memory budget) is NOT decided: even with concrete read texts the first bucket iteration does not finish (12 GB / 25 min); the canonicalisation is composed in the harness exactly as filter_kmers composes it, so a change inside filter_kmers' inline loop is not detected by this check.",
        note="Bounds: K in {3,4} quick, {5,6,8} thorough; reads <= K+3 bases. Trusted: Kani/CBMC, the harness copy of the 5-line canonicalisation. Stub S1 for the label vector.",
        ref="DESIGN.md §5 C05"),
    "C06": dict(
        text="Per-read strand lemma on real library code: for every read R (<= K+2 bases, all boundary extension sets) and its reverse complement with reverse-complemented boundary sets, observation i of R and observation n-K-i of rc(R) are reverse complements, canonicalise to the same key (= min(k, rc k)) and, unless the k-mer is its own reverse complement, to the same extension set, which equals the true flanks of the canonical strand; in stranded mode the transform is the identity. Graph side: the join decision (C02) is stated and proved in canonical coordinates for both strand flips." + PART + "equality of whole tables/graphs under reverse-complementing subsets of reads is a pipeline property (filter_kmers / compress loops) and is NOT decided.",
        note="Bounds: K in {3,4} quick, {5,6,8} thorough. Same trust base as C05; the canonicalisation composition is the harness copy.",
        ref="DESIGN.md §5 C06"),
    "C07": dict(
        text="Scanner::scan over every read of N bases with P=Kmer2 and a fully symbolic 16-entry score table (every score function on 2-mers, ties and constants included): intervals in start order, consecutive overlap exactly k-1, first at 0 and last ending at N, k <= len <= 2k-p, reported minimizer = p-mer at the reported position, inside every k-mer of the interval, minimal over all p-mers of the interval, and no interval ends while the next k-mer still contains the minimizer and brings no strictly better p-mer. The deprecated permutation wrapper simple_scan (symbolic injective table, rc on/off) is checked to tile the read and to report, per interval, the canonical form of the arg-min p-mer under min(perm[x], perm[rc x]).",
        note="Bounds (the honest limit of CBMC's heap model): (N,k) in {(2..5,2),(3..4,3),(4..5,4)} quick, plus (5..6,3),(6,4) thorough — i.e. at most 3-4 k-mers per read; P=Kmer2 and the DnaSlice container only (other containers differ in get/get_kmer, decided under C13). Stubs S1, S2.",
        ref="DESIGN.md §4 C07"),
    "C08": dict(
        text="msp_sequence::<Kmer2, Lmer1> with a symbolic injective permutation table (and the default one) and symbolic rc flag: every piece is the exact substring, its boundary extensions are exactly the flanking bases (none at a read end), the pieces tile the read with k-1 overlap, and every k-mer of every piece carries bucket == canonical form of the arg-min p-mer of that k-mer alone (a pure function of the k-mer, symmetric under reverse complement in rc mode).",
        note="Bounds: quick tier N == k (one k-mer per read; k in {3,4}); thorough N = k+1..k+2 (up to 3 k-mers; symbolic permutation with N=k+1 needs > 12 GB and runs under the 30 GB thorough cap, reported inconclusive if it does not fit). P=Kmer2, piece container Lmer1 only. Stubs S1, S2. Exts::from_slice_bounds separately for all positions of 6-base reads.",
        ref="DESIGN.md §4 C08"),
    "C09": dict(
        text="The node-level join decision — one call of the private try_extend_node via the add-only hook on 2-3-node graphs (all bases, extension sets, payloads, availability/censor subsets, strandedness, direction, start node): Unique(node, outgoing side, exts) iff one extension, not a single-k-mer palindrome, target resolves, is available, join accepted, exactly one extension on its incoming side; fix_exts/get_valid_exts leave no extension pointing at a removed or absent node; sequence_of_path spells two nodes with K-1 overlap and reverse-complements right-entered nodes. Round 2: the growth loop extend_node of the re-compressor (hook) on 2-node graphs against a reference node walk in string terms: the walk continues exactly while the decision says Unique, visits the reference nodes with the reference incoming sides, consumes exactly the walked nodes and reports the end extensions." + PART + "the merged-node builder (harness built, no verdict within 25 min, not registered), the outer seed loop of compress_graph, idempotence of re-compression, equality with the direct route and payload folding over whole paths are NOT covered.",
        note="Bounds: K in {3,4}, node lengths K..K+1, 2 nodes (quick) / 3 nodes (thorough). Model M1; distinct node-end k-mers per side; the examined extension resolves and its target has >= 1 facing extension (the code's documented panics otherwise). Stubs S1, S2.",
        ref="DESIGN.md §5 C09"),
})

NOT_APPLICABLE = {
    "C04": "whole-pipeline equivalence (msp -> per-shard filter -> compress -> combine -> finish -> recompress, twice); every stage but the first is individually beyond the solver's reach (measured, DESIGN §8); its local ingredients are decided under C08/C05/C02/C09",
    "C19": "Kani has no thread model and rayon's pool cannot be encoded; the MPHF builder is float-sized and wyhash-driven with collision-dependent levels; 10^5-node graphs are far outside any bound",
}

PENDING = {}


def _pending():
    ids = [json.loads(l)["id"] for l in open(os.path.join(VERIF, "properties.jsonl")) if l.strip()]
    return {i: "check not built yet in this round (planned in DESIGN.md); not claimed until its harnesses run green"
            for i in ids if i not in CLAIMS and i not in NOT_APPLICABLE}


def build():
    checks = []
    for pid in sorted(CLAIMS):
        c = CLAIMS[pid]
        checks.append(dict(
            property_id=pid,
            quick_cmd="./check %s quick" % pid,
            thorough_cmd="./check %s thorough" % pid,
            evidence_file="/verif/evidence/%s.json" % pid,
            replay_cmd_template="cd /verif/replay && cargo kani playback -Z concrete-playback  # test source: {path}",
            engine=c.get("engine", "kani"),
            level_claimed=dict(category="model_checking", text=c["text"], design_ref=c["ref"]),
            level_note=c["note"],
            technique=c.get("technique", TECH_KANI),
        ))
    na = [dict(property_id=k, reason=v) for k, v in sorted(NOT_APPLICABLE.items())]
    na += [dict(property_id=k, reason=v) for k, v in sorted(_pending().items())]
    na.sort(key=lambda d: d["property_id"])
    return dict(
        version=1,
        setup_cmd="./check setup",
        hooks=dict(
            guard="cargo feature verif_hooks",
            enable="path dependency debruijn = { path = \"/repo\", features = [\"verif_hooks\"] } in /verif/harness/Cargo.toml",
            baseline_off_cmd="cd /repo && cargo test --offline --no-fail-fast",
            source_commits=["870654343f75018d0b0ba9b1900e6f658af21e11", "2d6811c3a7913580578d590faa2fc3aa1cb75dd5", "783c0ec2e6faed1f1fbc956e44fe1cdee66e2dcc"],
            add_only=True,
        ),
        engines=[
            dict(name="mirsmt", path="/verif/tools/mirsmt.py", serves_properties=["C16"],
                 kind_free_text="nightly rustc -Zunpretty=mir dump of /repo -> straight-line MIR symbolic executor -> SMT-LIB2 bit-vectors, decided by z3 4.8.12 and cvc5 1.0 (both must agree); counterexamples replayed through /verif/native against the real AVX2 path"),
            dict(name="kani", path="/verif/harness", serves_properties=sorted(CLAIMS),
                 kind_free_text="Kani 0.68 proof harnesses (out-of-tree crate, path dependency on /repo) decided by CBMC 6.11 + CaDiCaL; boomphf replaced by the model crate /verif/harness/boomphf-model via [patch.crates-io]"),
        ],
        checks=checks,
        not_applicable=na,
        notes="Every check regenerates /verif/harness/src/gen.rs from tools/spec.py and recompiles /repo's working tree through the path dependency. Exit 2 = inconclusive (timeout / memory / vacuous / non-reproducing counterexample), never reported as pass or violation.",
    )


if __name__ == "__main__":
    m = build()
    with open(os.path.join(VERIF, "MANIFEST.json"), "w") as f:
        json.dump(m, f, indent=1)
    print("wrote MANIFEST.json: %d checks, %d not_applicable" % (len(m["checks"]), len(m["not_applicable"])))
