#!/usr/bin/env python3
"""C16, vector path: decide `pack_32_bases(convert_bases(block))` against the scalar tables for
ALL 256^32 blocks, from the MIR of /repo's current source (see mirsmt.py)."""
import os
import random
import subprocess
import time

import mirsmt as M

REPO = "/repo"
VERIF = os.path.dirname(os.path.dirname(os.path.abspath(__file__)))
TARGET = os.environ.get("VERIF_TARGET", os.path.join(VERIF, "target"))
ENV = dict(os.environ)
ENV["CARGO_NET_OFFLINE"] = "true"
ENV.pop("RUSTFLAGS", None)


def dump_mir():
    """nightly MIR of the crate as it is now (debug-assertions off = release semantics,
    overflow checks on so that arithmetic panics are visible as asserts)"""
    tdir = os.path.join(TARGET, "mir")
    os.makedirs(tdir, exist_ok=True)
    env = dict(ENV)
    env["CARGO_TARGET_DIR"] = tdir
    # force a re-run of rustc for the lib even if nothing changed
    stamp = os.path.join(REPO, "src", "lib.rs")
    st = os.stat(stamp)
    try:
        os.utime(stamp, None)
        p = subprocess.run(
            "cargo +nightly rustc --offline --lib -- -Zunpretty=mir -C debug-assertions=off -C overflow-checks=on",
            shell=True, cwd=REPO, env=env, stdout=subprocess.PIPE, stderr=subprocess.PIPE, text=True, timeout=900)
    finally:
        os.utime(stamp, (st.st_atime, st.st_mtime))
    if p.returncode != 0 or "fn " not in p.stdout:
        raise M.Unsupported("MIR dump failed: " + p.stderr[-400:])
    return p.stdout


def build_native():
    p = subprocess.run("cargo build --release --target-dir %s" % os.path.join(TARGET, "native"), shell=True,
                       cwd=os.path.join(VERIF, "native"), env=ENV, stdout=subprocess.PIPE, stderr=subprocess.STDOUT, text=True)
    exe = os.path.join(TARGET, "native", "release", "vnative")
    if p.returncode != 0 or not os.path.exists(exe):
        raise RuntimeError("native helper build failed: " + p.stdout[-400:])
    return exe


def native_acgt(exe, blocks):
    inp = "\n".join(bytes(b).hex() for b in blocks) + "\n"
    p = subprocess.run([exe, "acgt"], input=inp, stdout=subprocess.PIPE, text=True, timeout=120)
    out = []
    for line in p.stdout.strip().splitlines():
        ln, st, sc, avx, ok = line.split()
        out.append(dict(len=int(ln), storage=[int(x, 16) for x in st.split(",") if x],
                        scalar=[int(x, 16) for x in sc.split(",") if x], avx=int(avx), ok=int(ok)))
    return out


def encode(mir):
    funcs = M.parse_functions(mir, {"convert_bases", "pack_32_bases", "base_to_bits", "is_valid_base"})
    for need in ("convert_bases", "pack_32_bases", "base_to_bits", "is_valid_base"):
        if need not in funcs:
            raise M.Unsupported("function %s not found in MIR" % need)
    ex = M.Exec(funcs)
    decls = ["(declare-const b%d (_ BitVec 8))" % i for i in range(32)]
    content = M.concat(["b%d" % i for i in reversed(range(32))])
    sl = M.Val("slice", fields={"content": content, "len": M.bv(32, 64)})
    conv = ex.run("convert_bases", [sl])
    res, valid = conv.fields[0], conv.fields[1]
    packed = ex.run("pack_32_bases", [res])
    # scalar spec from the repo's own tables (translated from MIR as well)
    spec_parts, valid_parts, lane_eq = [], [], []
    for i in range(32):
        bi = M.v_int("b%d" % i, "u8")
        v = ex.run("base_to_bits", [bi])
        v = ex.name_val(v)
        spec_parts.append(M.ext(1, 0, v.term))
        ok = ex.name_val(ex.run("is_valid_base", [bi]))
        valid_parts.append(ok.term)
        lane_eq.append("(= %s %s)" % (M.byte(res.term, i), v.term))
    spec = M.concat(spec_parts)  # b0 in the most significant lane
    pre = "(set-logic ALL)\n(set-option :produce-models true)\n" + "\n".join(decls) + "\n" + ex.preamble() + "\n"
    pre += "(define-fun packed () (_ BitVec 64) %s)\n" % packed.term
    pre += "(define-fun spec () (_ BitVec 64) %s)\n" % spec
    pre += "(define-fun valid () Bool %s)\n" % valid.term
    pre += "(define-fun allvalid () Bool (and %s))\n" % " ".join(valid_parts)
    pre += "(define-fun lanes_ok () Bool (and %s))\n" % " ".join(lane_eq)
    panic = "(or false %s)" % " ".join(c for c, _ in ex.panics)
    pre += "(define-fun panics () Bool %s)\n" % panic
    return pre, ex


GETV = "(get-value (%s))" % " ".join("b%d" % i for i in range(32))


def model_bytes(out):
    vals = dict(re_pair for re_pair in __import__("re").findall(r"\(b(\d+) #x([0-9a-f]{2})\)", out))
    if len(vals) != 32:
        return None
    return [int(vals[str(i)], 16) for i in range(32)]


def run(tier, seed):
    """-> list of query dicts: name,status(PASS/FAIL/INCONCLUSIVE),time,detail,bounds,funcs,(witness)"""
    qs = []
    t0 = time.time()
    try:
        mir = dump_mir()
        pre, ex = encode(mir)
        exe = build_native()
    except M.Unsupported as e:
        return [dict(name="smt_c16_encode", status="INCONCLUSIVE", time=time.time() - t0, detail="unsupported MIR: %s" % e,
                     bounds="", funcs=[])]
    except Exception as e:  # build problems are inconclusive too
        return [dict(name="smt_c16_encode", status="INCONCLUSIVE", time=time.time() - t0, detail=str(e)[:300], bounds="", funcs=[])]
    funcs = list(ex.encoded)
    t_enc = time.time() - t0

    # ---- translator validation: the encoding must agree with the real binary on concrete blocks
    rnd = random.Random(seed)
    fixed = [b"CCCCCCCCCCCCCCCCCCCCCCCCCCCCCCCC", b"GGGGGGGGGGGGGGGGGGGGGGGGGGGGGGGG", b"TTTTTTTTTTTTTTTTTTTTTTTTTTTTTTTT",
             b"ATATATATATATATATATATATATATATATAT", b"AAAAAAAAAAAAAAAATTTTTTTTTTTTTTTT", b"ACGTACGTACGTACGTACGTACGTACGTACGT",
             b"AAAAAAAACCCCCCCCGGGGGGGGTTTTTTTT", b"AAAACCCCGGGGTTTTAAAACCCCGGGGTTTT", b"acgtNnXx@[`{\x00\x7f\x80\xffACGTacgtACGTacgtacgt"]
    blocks = [(list(b) + [65] * 32)[:32] for b in fixed]
    n_rand = 24 if tier == "quick" else 200
    for _ in range(n_rand):
        mode = rnd.random()
        if mode < 0.4:
            blocks.append([rnd.randrange(256) for _ in range(32)])
        else:
            blocks.append([rnd.choice(b"ACGTacgtNn") if rnd.random() < 0.9 else rnd.randrange(256) for _ in range(32)])
    nat = native_acgt(exe, blocks)
    t1 = time.time()
    script = pre
    for blk in blocks:
        script += "(push 1)\n" + "".join("(assert (= b%d #x%02x))\n" % (i, v) for i, v in enumerate(blk))
        script += "(check-sat)\n(get-value (packed valid panics))\n(pop 1)\n"
    out = M.run_solver(["z3", "-in"], script, 600)
    import re
    got = re.findall(r"\(\(packed #x([0-9a-f]{16})\)\s*\(valid (true|false)\)\s*\(panics (true|false)\)\)", out)
    tv_ok, tv_detail = True, ""
    if "(error" in out or len(got) != len(blocks):
        tv_ok, tv_detail = False, "solver evaluation failed: " + out[:200]
    else:
        if not nat or not nat[0]["avx"]:
            tv_ok, tv_detail = False, "AVX2 not available natively: cannot validate the translator against the real vector path"
        for blk, (pk, vd, pn), nv in zip(blocks, got, nat):
            if not tv_ok:
                break
            if int(pk, 16) != nv["storage"][0] or pn == "true":
                tv_ok, tv_detail = False, "encoding disagrees with the real binary on block %s: smt=%s native=%016x" % (
                    bytes(blk).hex(), pk, nv["storage"][0])
    qs.append(dict(name="smt_c16_translator_validation", status="PASS" if tv_ok else "INCONCLUSIVE", time=time.time() - t1,
                   detail=tv_detail or "%d concrete 32-byte blocks (repo test vectors + %d seeded random): SMT encoding == real from_acgt_bytes" % (len(blocks), n_rand),
                   bounds="%d concrete blocks" % len(blocks), funcs=funcs, kind="validation"))
    if not tv_ok:
        return qs

    # ---- the deciding queries, each over ALL 256^32 blocks
    queries = [
        ("smt_c16_no_panic", "panics", "no assert/overflow panic is reachable in convert_bases / pack_32_bases for a 32-byte input"),
        ("smt_c16_packed_eq_scalar", "(not (= packed spec))", "pack_32_bases(convert_bases(b)) == sum base_to_bits(b[i]) << (62-2i)"),
        ("smt_c16_lanes_eq_table", "(not lanes_ok)", "byte i of convert_bases(b).0 == base_to_bits(b[i])"),
        ("smt_c16_valid_flag", "(not (= valid allvalid))", "convert_bases(b).1 == all i: is_valid_base(b[i])"),
    ]
    for name, neg, what in queries:
        t2 = time.time()
        res = M.decide(pre, neg, GETV, timeout=600 if tier == "quick" else 3600)
        verdicts = {k: v[0] for k, v in res.items()}
        q = dict(name=name, time=time.time() - t2, bounds="all 256^32 32-byte blocks (256-bit bit-vector query)", funcs=funcs,
                 detail=what + " — " + ", ".join("%s: %s" % kv for kv in sorted(verdicts.items())))
        if all(v == "unsat" for v in verdicts.values()):
            q["status"] = "PASS"
        elif all(v == "sat" for v in verdicts.values()) or (set(verdicts.values()) <= {"sat", "unknown", "timeout"} and "sat" in verdicts.values()):
            # witness from whichever solver said sat
            w = None
            for k, (vd, o) in res.items():
                if vd == "sat":
                    w = model_bytes(o)
                    if w:
                        break
            q["status"] = "FAIL"
            q["witness"] = w
            if set(verdicts.values()) != {"sat"}:
                q["detail"] += " (solvers did not both answer)"
        else:
            q["status"] = "INCONCLUSIVE"
            if "sat" in verdicts.values() and "unsat" in verdicts.values():
                q["detail"] += " — SOLVERS DISAGREE"
        qs.append(q)
    for q in qs:
        q.setdefault("kind", "query")
        q["encode_s"] = round(t_enc, 1)
    return qs


def replay(q, exe=None):
    """Feed the model's block to the real from_acgt_bytes. -> (reproduced, text)"""
    if not q.get("witness"):
        return None, "no witness"
    exe = exe or build_native()
    blk = q["witness"]
    # the block alone, and embedded in a 3-block + tail string (vector path + scalar tail)
    tests = [blk, blk + blk[:5], [65] * 32 + blk + [67] * 3]
    nat = native_acgt(exe, tests)
    bad = [i for i, nv in enumerate(nat) if nv["storage"] != nv["scalar"] or not nv["ok"]]
    text = "block (hex): %s\n" % bytes(blk).hex()
    for tcase, nv in zip(tests, nat):
        text += "from_acgt_bytes(%s) -> storage %s ; scalar table says %s\n" % (
            bytes(tcase).hex(), ",".join("%016x" % x for x in nv["storage"]), ",".join("%016x" % x for x in nv["scalar"]))
    if not nat or not nat[0]["avx"]:
        return None, text + "AVX2 not available: the vector path did not run"
    return (len(bad) > 0), text


if __name__ == "__main__":
    import json
    import sys
    r = run(sys.argv[1] if len(sys.argv) > 1 else "quick", 0)
    for q in r:
        print(json.dumps({k: v for k, v in q.items() if k != "funcs"}))
