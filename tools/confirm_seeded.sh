#!/bin/bash
# confirm_seeded.sh <ID> <m> : confirm a sub-agent's mutant in its scratch worktree /tmp/wt/<ID>
#  (1) demo passes on the clean tree, (2) patch applies and compiles, (3) demo FAILS with the patch,
#  (4) the full existing suite passes with the patch. On success copy into /verif/seeded/<ID>-m<m>/.
ID=$1; M=$2
WT=/tmp/wt/$ID; SRC=$WT/_out/m$M; OUT=/verif/seeded/$ID-m$M
export CARGO_TARGET_DIR=$WT/target CARGO_NET_OFFLINE=true
cd $WT || exit 2
[ -f $SRC/patch.diff ] && [ -f $SRC/demo.rs ] || { echo "$ID m$M: missing files"; exit 2; }
git checkout -q -- . ; rm -f tests/demo.rs; mkdir -p tests
cp $SRC/demo.rs tests/demo.rs
cargo test --offline --test demo > $SRC/confirm_clean.log 2>&1; c1=$?
git apply $SRC/patch.diff || { echo "$ID m$M: patch does not apply"; git checkout -q -- .; rm -f tests/demo.rs; exit 2; }
cargo test --offline --test demo > $SRC/confirm_mut.log 2>&1; c2=$?
rm -f tests/demo.rs
cargo test --offline --no-fail-fast > $SRC/confirm_suite.log 2>&1; c3=$?
nfail=$(grep -c "^test .* FAILED" $SRC/confirm_suite.log)
npass=$(grep -c "^test .* ok$" $SRC/confirm_suite.log)
git checkout -q -- . 
echo "$ID m$M: demo_clean_exit=$c1 demo_mutant_exit=$c2 suite_exit=$c3 suite_pass=$npass suite_fail=$nfail"
if [ $c1 -eq 0 ] && [ $c2 -ne 0 ] && [ $c3 -eq 0 ] && [ $nfail -eq 0 ] && grep -q "test result: FAILED\|panicked" $SRC/confirm_mut.log; then
  mkdir -p $OUT; cp $SRC/patch.diff $SRC/demo.rs $OUT/
  python3 - "$SRC/meta.json" "$OUT/meta.json" "$ID" "$npass" <<'PY'
import json,sys
try: m=json.load(open(sys.argv[1]))
except Exception as e: m={"summary":"(agent meta.json unreadable: %s)"%e}
m["property"]=sys.argv[3]
m["confirmed_by_me"]={"worktree":"/tmp/wt/%s (scratch worktree of /repo HEAD incl. the three fix: commits)"%sys.argv[3],
  "ran":["cargo test --offline --test demo  (clean tree) -> pass","git apply patch.diff; cargo test --offline --test demo -> FAIL",
         "cargo test --offline --no-fail-fast (whole existing suite, patch applied) -> %s passed, 0 failed"%sys.argv[4]]}
json.dump(m,open(sys.argv[2],"w"),indent=1)
PY
  echo "$ID m$M: CONFIRMED -> $OUT"
else
  echo "$ID m$M: REJECTED"
fi
