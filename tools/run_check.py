#!/usr/bin/env python3
"""Run the solver checks that decide one property.

  run_check.py <Cxx> <quick|thorough> [--only REGEX] [--jobs N]

Exit 0: every query discharged (all assertions + unwinding assertions hold, every cover
        point reachable), or only failures listed in /verif/known_findings.txt.
Exit 1: a counterexample that reproduces natively against the real build
        (prints `VIOLATION property=<id> replay=<path>`).
Exit 2: inconclusive (timeout, out of memory, unsupported construct, vacuous harness,
        non-reproducing counterexample) — never reported as success or as violation.
"""
import json
import os
import queue
import re
import shutil
import signal
import subprocess
import sys
import threading
import time

HERE = os.path.dirname(os.path.abspath(__file__))
VERIF = os.path.dirname(HERE)
sys.path.insert(0, HERE)
import spec  # noqa: E402

HARNESS = os.path.join(VERIF, "harness")
REPLAY_CRATE = os.path.join(VERIF, "replay")
TARGET = os.environ.get("VERIF_TARGET", os.path.join(VERIF, "target"))
LOGS = os.path.join(VERIF, "logs")
REPO = "/repo"
SMT_ENGINES = {"C16": "smt_c16"}
PARTIAL_RUN = False
MAX_REPLAYS = int(os.environ.get("VERIF_MAX_REPLAYS", "1"))

ENV = dict(os.environ)
ENV["CARGO_NET_OFFLINE"] = "true"
ENV.pop("RUSTFLAGS", None)


def sh(cmd, **kw):
    return subprocess.run(cmd, shell=True, stdout=subprocess.PIPE, stderr=subprocess.STDOUT,
                          text=True, env=ENV, **kw)


def write_if_changed(path, text):
    try:
        with open(path) as f:
            if f.read() == text:
                return False
    except FileNotFoundError:
        pass
    with open(path, "w") as f:
        f.write(text)
    return True


def prepare():
    os.makedirs(LOGS, exist_ok=True)
    os.makedirs(TARGET, exist_ok=True)
    write_if_changed(os.path.join(HARNESS, "src", "gen.rs"), spec.gen_rs())
    lock = os.path.join(HARNESS, "Cargo.lock")
    if not os.path.exists(lock):
        shutil.copy(os.path.join(REPO, "Cargo.lock"), lock)


def versions():
    v = {}
    r = sh("cargo kani --version")
    v["kani"] = r.stdout.strip().splitlines()[0] if r.stdout else "?"
    r = sh("cbmc --version")
    v["cbmc"] = r.stdout.strip()
    r = sh("git -C /repo rev-parse HEAD")
    v["repo_head"] = r.stdout.strip()
    r = sh("git -C /repo status --porcelain -- src Cargo.toml | wc -l")
    v["repo_dirty_files"] = int(r.stdout.strip() or 0)
    return v


# ----------------------------------------------------------------------------- watchdog
class Watchdog(threading.Thread):
    """Kills any cbmc process whose resident set exceeds its cap (never counted as a pass)."""

    def __init__(self, cap_gb):
        super().__init__(daemon=True)
        self.cap_kb = cap_gb * 1024 * 1024
        self.stop = False
        self.killed = []
        self.peak_kb = 0

    def run(self):
        while not self.stop:
            try:
                out = subprocess.run(["ps", "-eo", "pid,rss,comm"], stdout=subprocess.PIPE,
                                     text=True).stdout
                for line in out.splitlines()[1:]:
                    p = line.split(None, 2)
                    if len(p) == 3 and p[2].strip() in ("cbmc", "goto-instrument", "cadical",
                                                        "kissat"):
                        rss = int(p[1])
                        self.peak_kb = max(self.peak_kb, rss)
                        if rss > self.cap_kb:
                            try:
                                os.kill(int(p[0]), signal.SIGKILL)
                                self.killed.append(int(p[0]))
                            except OSError:
                                pass
            except Exception:
                pass
            time.sleep(2)


# ----------------------------------------------------------------------------- parsing
SEC_RE = re.compile(r"^Checking harness (\S+?)\.\.\.\s*$", re.M)


def parse_sections(text):
    """-> {harness_name: section_text}"""
    res = {}
    ms = list(SEC_RE.finditer(text))
    for i, m in enumerate(ms):
        end = ms[i + 1].start() if i + 1 < len(ms) else len(text)
        name = m.group(1).split("::")[-1]
        res[name] = text[m.end():end]
    return res


def classify(sec):
    """-> dict(status, time, checks, failed, covers_sat, covers_total, failed_checks, reason)"""
    r = dict(status="ERROR", time=None, checks=0, failed=0, covers_sat=0, covers_total=0,
             failed_checks=[], reason="")
    m = re.search(r"Verification Time: ([0-9.]+)s", sec)
    if m:
        r["time"] = float(m.group(1))
    m = re.search(r"\*\* (\d+) of (\d+) failed", sec)
    if m:
        r["failed"], r["checks"] = int(m.group(1)), int(m.group(2))
    m = re.search(r"\*\* (\d+) of (\d+) cover properties satisfied", sec)
    if m:
        r["covers_sat"], r["covers_total"] = int(m.group(1)), int(m.group(2))
    fc = re.findall(r"Failed Checks: (.*)\n(?:\s*File: \"([^\"]*)\", line (\d+), in (\S+))?", sec)
    r["failed_checks"] = [dict(desc=d.strip(), file=f, line=l, func=fn) for d, f, l, fn in fc]
    if "VERIFICATION:- SUCCESSFUL" in sec:
        if r["covers_sat"] != r["covers_total"]:
            r["status"] = "VACUOUS"
            r["reason"] = "%d of %d cover points reachable" % (r["covers_sat"], r["covers_total"])
        else:
            r["status"] = "PASS"
    elif "VERIFICATION:- FAILED" in sec:
        descs = [c["desc"] for c in r["failed_checks"]]
        if re.search(r"timed out|Timeout|TIMEOUT|timeout", sec) and not descs:
            r["status"] = "TIMEOUT"
            r["reason"] = "harness timeout"
        elif not descs:
            r["status"] = "ERROR"
            r["reason"] = "FAILED without a failed check (solver killed / out of memory / CBMC error)"
        else:
            real = [d for d in descs if not re.search(
                r"unwinding assertion|not currently supported by Kani|recursion unwinding", d)]
            if not real:
                r["status"] = "INCONCLUSIVE"
                r["reason"] = "; ".join(sorted(set(descs)))[:300]
            else:
                r["status"] = "FAIL"
                r["reason"] = "; ".join(sorted(set(real)))[:400]
    else:
        r["reason"] = "no verdict in output (crash, kill or compile error)"
    return r



OLD_LINE = re.compile(r"^\[(?P<id>[^\]]+)\] (?:line (?P<line>\d+) )?(?P<desc>.*): (?P<st>SUCCESS|FAILURE|UNKNOWN|ERROR)\s*$")


def classify_old(sec):
    """Classifier for `--output-format old` (CBMC's own plain-text result list; no JSON trace
    is built per satisfied cover / failed check, which is several times faster and far lighter on
    memory for the large harnesses).  Same verdict rules as Kani's post-processing: a failed
    unwinding assertion or a reachable unsupported construct makes the run INCONCLUSIVE; a cover
    property reported FAILURE is a SATISFIED cover, SUCCESS an unsatisfiable one (vacuity)."""
    r = dict(status="ERROR", time=None, checks=0, failed=0, covers_sat=0, covers_total=0,
             failed_checks=[], reason="")
    t = 0.0
    for m in re.finditer(r"^Runtime (?:Symex|Convert SSA|Postprocess Equation|Post-process|decision procedure): ([0-9.]+)s", sec, re.M):
        t += float(m.group(1))
    r["time"] = round(t, 1) if t else None
    real, soft = [], []
    n = 0
    # a result entry may wrap over several lines (long cover conditions): join them first
    joined, buf = [], None
    for line in sec.splitlines():
        if buf is not None:
            if line.startswith("["):
                joined.append(buf)
                buf = None
            else:
                buf += " " + line.strip()
                if OLD_LINE.match(buf):
                    joined.append(buf)
                    buf = None
                continue
        if line.startswith("[") and not OLD_LINE.match(line):
            buf = line
        else:
            joined.append(line)
    if buf is not None:
        joined.append(buf)
    for line in joined:
        m = OLD_LINE.match(line)
        if not m:
            continue
        pid, desc, st = m.group("id"), m.group("desc"), m.group("st")
        cls = pid.rsplit(".", 2)[-2] if pid.count(".") >= 2 else ""
        desc = re.sub(r"^\[KANI_CHECK_ID[^\]]*\]\s*", "", desc).strip()
        if cls == "reachability_check":
            continue
        if cls == "cover":
            r["covers_total"] += 1
            if st == "FAILURE":
                r["covers_sat"] += 1
            continue
        n += 1
        if st == "FAILURE":
            d = dict(desc=desc.strip('"'), file="", line=m.group("line") or "", func=pid.rsplit(".", 2)[0], pid=pid)
            if re.search(r"unwinding assertion|recursion unwinding|not currently supported by Kani", desc) or cls == "unsupported_construct":
                soft.append(d)
            else:
                real.append(d)
        elif st in ("UNKNOWN", "ERROR"):
            soft.append(dict(desc="%s: %s" % (st, desc), file="", line="", func=pid))
    r["checks"] = n
    r["failed"] = len(real) + len(soft)
    r["failed_checks"] = real + soft
    has_verdict = re.search(r"^VERIFICATION (SUCCESSFUL|FAILED)", sec, re.M)
    if not has_verdict:
        if re.search(r"timed out|Timeout|TIMEOUT|timeout", sec):
            r["status"], r["reason"] = "TIMEOUT", "harness timeout"
        else:
            r["reason"] = "no verdict in output (crash, kill, out of memory or compile error)"
        return r
    if real:
        r["status"] = "FAIL"
        r["reason"] = "; ".join(sorted(set(c["desc"] for c in real)))[:400]
    elif soft:
        r["status"] = "INCONCLUSIVE"
        r["reason"] = "; ".join(sorted(set(c["desc"] for c in soft)))[:300]
    elif has_verdict.group(1) == "SUCCESSFUL" or n > 0:
        # CBMC says FAILED whenever a cover is satisfied (it reports satisfied covers as failures)
        if r["covers_sat"] != r["covers_total"]:
            r["status"] = "VACUOUS"
            r["reason"] = "%d of %d cover points reachable" % (r["covers_sat"], r["covers_total"])
        else:
            r["status"] = "PASS"
    return r


# ----------------------------------------------------------------------------- running
def run_batch(widx, batch, cap, tier, extra_flags=""):
    tdir = os.path.join(TARGET, "w%d" % widx)
    hs = " ".join("--harness gen::%s" % h.name for h in batch)
    ofmt = getattr(batch[0], "ofmt", "terse")
    cmd = ("cargo kani -Z stubbing -Z unstable-options --harness-timeout %ds --output-format %s "
           "--exact --target-dir %s %s %s" % (cap, ofmt, tdir, extra_flags, hs))
    if batch[0].cbmc_args:
        cmd += " --cbmc-args " + batch[0].cbmc_args  # must be last
    t0 = time.time()
    # outer guard: compile + all harnesses; the per-harness timeout is enforced by kani
    outer = 240 + (cap + 20) * len(batch)
    try:
        p = subprocess.run(cmd, shell=True, cwd=HARNESS, env=ENV, stdout=subprocess.PIPE,
                           stderr=subprocess.STDOUT, text=True, timeout=outer,
                           start_new_session=True)
        out = p.stdout
    except subprocess.TimeoutExpired as e:
        out = (e.stdout or "") if isinstance(e.stdout, str) else (e.stdout or b"").decode("utf8", "replace")
        out += "\n[run_check] outer timeout after %ds\n" % outer
        subprocess.run("pkill -9 -f 'target-dir %s'" % tdir, shell=True)
    wall = time.time() - t0
    logp = os.path.join(LOGS, "%s_w%d_%d.log" % (batch[0].name, widx, int(t0)))
    with open(logp, "w") as f:
        f.write("$ " + cmd + "\n" + out)
    secs = parse_sections(out)
    results = {}
    for h in batch:
        if h.name in secs:
            r = classify_old(secs[h.name]) if ofmt == "old" else classify(secs[h.name])
        else:
            r = dict(status="ERROR", time=None, checks=0, failed=0, covers_sat=0, covers_total=0,
                     failed_checks=[], reason="harness section missing from output")
            m = re.search(r"^error(\[E\d+\])?: .*$", out, re.M)
            if m:
                r["reason"] = "compile error: " + m.group(0)[:200]
        r["log"] = logp
        r["batch_wall"] = wall
        results[h.name] = r
    return results


def schedule(harnesses, tier, jobs, batch_size):
    """Run all harnesses on `jobs` workers; batches share one compile."""
    mult = 1 if tier == "quick" else 6
    q = queue.Queue()
    # heavy first; batch only harnesses with the same cap
    hs = sorted(harnesses, key=lambda h: (-h.cap, h.cbmc_args, h.ofmt, h.name))
    i = 0
    while i < len(hs):
        cap = hs[i].cap
        b = [hs[i]]
        i += 1
        bs = 1 if cap > 200 else batch_size
        while i < len(hs) and hs[i].cap == cap and hs[i].cbmc_args == b[0].cbmc_args and hs[i].ofmt == b[0].ofmt and len(b) < bs:
            b.append(hs[i])
            i += 1
        q.put((b, cap * mult))
    results = {}
    lock = threading.Lock()
    # admission control on declared memory: the sum of the running batches' `mem` stays under the budget
    budget = int(os.environ.get("VERIF_MEM_BUDGET_GB", "52"))
    in_use = [0]
    cv = threading.Condition()

    def worker(widx):
        while True:
            try:
                b, cap = q.get_nowait()
            except queue.Empty:
                return
            need = min(budget, max(h.mem for h in b))
            with cv:
                while in_use[0] + need > budget:
                    cv.wait(timeout=5)
                in_use[0] += need
            try:
                r = run_batch(widx, b, cap, tier)
            finally:
                with cv:
                    in_use[0] -= need
                    cv.notify_all()
            with lock:
                results.update(r)
                for h in b:
                    x = r[h.name]
                    sys.stderr.write("  [%s] %-44s %-12s %6s s  %s\n" % (
                        time.strftime("%H:%M:%S"), h.name, x["status"],
                        "%.1f" % x["time"] if x["time"] is not None else "-", x["reason"][:120]))
                    sys.stderr.flush()

    ths = [threading.Thread(target=worker, args=(i,)) for i in range(min(jobs, q.qsize()))]
    for t in ths:
        t.start()
    for t in ths:
        t.join()
    return results


# ----------------------------------------------------------------------------- replay
def ensure_replay_crate():
    os.makedirs(REPLAY_CRATE, exist_ok=True)
    write_if_changed(os.path.join(REPLAY_CRATE, "Cargo.toml"), """[package]
name = "vreplay"
version = "0.1.0"
edition = "2021"
publish = false

# Native replay of solver counterexamples: same harness sources, REAL boomphf (no [patch]).
[lib]
path = "../harness/src/lib.rs"

[dependencies]
debruijn = { path = "/repo", features = ["verif_hooks"] }
boomphf = "0.6"
bit-set = "0.5.1"
smallvec = "1"
serde_json = "1"

[workspace]

[lints.rust]
unexpected_cfgs = { level = "allow", check-cfg = ['cfg(kani)'] }
""")
    lock = os.path.join(REPLAY_CRATE, "Cargo.lock")
    if not os.path.exists(lock):
        shutil.copy(os.path.join(REPO, "Cargo.lock"), lock)


def _panic_matches(out, descs):
    """Does the native panic correspond to one of the checks the solver reported as failed?
    (A panic somewhere else — e.g. inside the real boomphf on a table the model accepted — is
    NOT a reproduction.)"""
    msgs = re.findall(r"panicked at [^\n]*:\n([^\n]*)", out)
    msgs += re.findall(r"panicked at '([^']*)'", out)
    norm = lambda t: re.sub(r"\s+", " ", t.replace('"', "").strip().lower())
    for d in descs:
        d0 = norm(re.sub(r"^assertion failed: ", "", d))
        if not d0:
            continue
        for m in msgs:
            m0 = norm(re.sub(r"^assertion failed: ", "", m))
            if d0 in m0 or m0 in d0:
                return True
            for key in ("index out of bounds", "attempt to subtract with overflow", "attempt to add with overflow",
                        "attempt to shift left with overflow", "attempt to shift right with overflow",
                        "attempt to multiply with overflow", "out of range for slice", "option::unwrap()",
                        "slice index starts at", "range end index", "range start index", "divide by zero"):
                if key in d0 and key in m0:
                    return True
    return False


def replay(prop, h, tier, failed_descs=(), failed_pids=()):
    """Ask the solver for concrete witnesses, write them as unit tests, run them natively against
    the real build (real boomphf).  Reproduced only if a native panic matches a failed check.
    -> (reproduced: bool|None, path, detail)"""
    tdir = os.path.join(TARGET, "replay")
    cap = h.cap * (1 if tier == "quick" else 6) * 2
    cmd = ("cargo kani -Z stubbing -Z unstable-options -Z concrete-playback --concrete-playback=print "
           "--harness-timeout %ds --output-format terse --exact --target-dir %s --harness gen::%s"
           % (cap, tdir, h.name))
    extra = h.cbmc_args
    if failed_pids:
        # ask CBMC for a trace of the failed check(s) only (not of every satisfied cover point)
        extra += "".join(" --property '%s'" % x for x in list(failed_pids)[:2])
    if extra:
        cmd += " --cbmc-args " + extra
    p = sh(cmd, cwd=HARNESS)
    out = p.stdout
    blocks = re.findall(r"```\s*\n(.*?)```", out, re.S)
    rdir = os.path.join(VERIF, "replays", prop)
    os.makedirs(rdir, exist_ok=True)
    path = os.path.join(rdir, h.name + ".rs")
    # one generated test per failed check; tests for satisfied cover points are not counterexamples
    tests = [b for b in blocks if "fn kani_concrete_playback_" in b and not re.search(r"Check for `cover`", b)]
    if not tests:
        with open(path, "w") as f:
            f.write("// no concrete playback test for a failed check was produced by Kani for %s\n/*\n%s\n*/\n"
                    % (h.name, out[-4000:].replace("*/", "* /")))
        return None, path, "kani produced no concrete playback test for the failed check"
    ensure_replay_crate()
    pb = os.path.join(HARNESS, "src", "playback.rs")
    header = ("// Concrete counterexample(s) for property %s, harness gen::%s\n// produced by: %s\n"
              "// replay: cd /verif/replay && cargo kani playback -Z concrete-playback -- <test name>\n" % (prop, h.name, cmd))
    body, reproduced, detail = "", False, "counterexample does not reproduce natively"
    for test in tests[:3]:
        tm = re.search(r"fn (kani_concrete_playback_\w+)", test)
        tname = tm.group(1)
        test = re.sub(r"(?<![\w:])%s\b(?=\s*\))" % re.escape(h.name), "crate::gen::" + h.name, test)
        with open(pb, "w") as f:
            f.write("// @generated: concrete playback test being replayed\n" + test)
        try:
            r = sh("cargo kani playback -Z concrete-playback -- %s --exact --nocapture" % ("playback::" + tname),
                   cwd=REPLAY_CRATE, timeout=1200)
            o = r.stdout
        except subprocess.TimeoutExpired:
            o = "timeout"
        finally:
            with open(pb, "w") as f:
                f.write("// @generated: empty when no replay is in progress\n")
        ok = ("panicked at" in o) and _panic_matches(o, failed_descs)
        body += test + "\n/* native replay output (dev profile, real boomphf) — %s:\n%s\n*/\n\n" % (
            "REPRODUCED" if ok else "not reproduced", o[-2500:].replace("*/", "* /"))
        if ok:
            reproduced, detail = True, "reproduced natively (%s)" % tname
            break
        if "panicked at" in o:
            detail = "native run panicked, but not at a check the solver reported (e.g. inside the real boomphf): not counted"
        elif "test result: ok" not in o:
            detail = "native replay did not run: " + o[-200:]
    with open(path, "w") as f:
        f.write(header + body)
    return (True if reproduced else False), path, detail


TRACE_CALL = re.compile(r"^#### Function call: (_RINvCs\w+?_4kani(?:16any_raw_internal|13any_raw_array)(\w)(?:Kj([0-9a-f]+)_)?E\w*)\(\)")
TRACE_RET = re.compile(r"^\s+goto_symex\$\$return_value\$\$\w+?(?:\[(\d+)\])?=.*\(([01 ]+)\)\s*$")
PRIM_SIZE = dict(a=1, b=1, h=1, c=4, t=2, s=2, m=4, l=4, y=8, x=8, j=8, i=8, o=16, n=16)


def concrete_vals_from_text_trace(text):
    """CBMC's plain-text trace (with --trace-show-function-calls) lists every call of
    `kani::any_raw_internal::<T>` / `kani::any_raw_array::<T, N>` in call order together with the
    value it returned (omitted when the value is irrelevant to the violation: then zero bytes are
    used). That is exactly the byte-vector list Kani's concrete playback feeds back through
    `kani::concrete_playback_run` (one entry per scalar, one per array element).
    -> list of byte lists, or None if a call cannot be decoded."""
    vals = []
    lines = text.splitlines()
    i = 0
    while i < len(lines):
        m = TRACE_CALL.match(lines[i])
        if not m:
            i += 1
            continue
        name, code, n = m.group(1), m.group(2), m.group(3)
        size = PRIM_SIZE.get(code)
        count = int(n, 16) if n is not None else 1
        got = {}
        i += 1
        while i < len(lines) and not lines[i].startswith("#### Function return from " + name):
            r = TRACE_RET.match(lines[i])
            if r:
                bits = r.group(2).replace(" ", "")
                got[int(r.group(1) or 0)] = list(int(bits, 2).to_bytes(len(bits) // 8, "little"))
            i += 1
        for k in range(count):
            if k in got:
                vals.append(got[k])
            elif size is not None:
                vals.append([0] * size)
            else:
                return None
    return vals


def replay_text(prop, h, tier, failed_descs=(), failed_pids=()):
    """Replay for harnesses run with --output-format old (Kani's own concrete playback builds a
    JSON trace that does not fit in memory for them): ask CBMC for a plain-text trace of the
    failed check only, rebuild the concrete_vals list from it, and run it natively through
    kani::concrete_playback_run against the real build (real boomphf)."""
    tdir = os.path.join(TARGET, "replay")
    cap = h.cap * (1 if tier == "quick" else 6) * 2
    extra = (h.cbmc_args + " --trace --trace-show-function-calls" + "".join(" --property '%s'" % x for x in list(failed_pids)[:1])).strip()
    cmd = ("cargo kani -Z stubbing -Z unstable-options --no-assertion-reach-checks --harness-timeout %ds --output-format old "
           "--exact --target-dir %s --harness gen::%s --cbmc-args %s" % (cap, tdir, h.name, extra))
    out = sh(cmd, cwd=HARNESS).stdout
    rdir = os.path.join(VERIF, "replays", prop)
    os.makedirs(rdir, exist_ok=True)
    path = os.path.join(rdir, h.name + ".rs")
    k = out.find("Trace for ")
    if k < 0:
        with open(path, "w") as f:
            f.write("// CBMC produced no trace for %s\n/*\n%s\n*/\n" % (h.name, out[-3000:].replace("*/", "* /")))
        return None, path, "CBMC produced no trace for the failed check"
    e = out.find("Violated property:", k)
    vals = concrete_vals_from_text_trace(out[k:e if e > 0 else len(out)])
    if vals is None:
        return None, path, "the text trace contains a nondeterministic value of a type the decoder does not handle"
    tname = "kani_concrete_playback_%s_from_text_trace" % h.name
    test = ("#[test]\nfn %s() {\n    let concrete_vals: Vec<Vec<u8>> = vec![\n%s    ];\n"
            "    kani::concrete_playback_run(concrete_vals, crate::gen::%s);\n}\n"
            % (tname, "".join("        vec!%s,\n" % v for v in vals), h.name))
    ensure_replay_crate()
    pb = os.path.join(HARNESS, "src", "playback.rs")
    with open(pb, "w") as f:
        f.write("// @generated: concrete playback test being replayed\n" + test)
    try:
        o = sh("cargo kani playback -Z concrete-playback -- %s --exact --nocapture" % ("playback::" + tname),
               cwd=REPLAY_CRATE, timeout=1200).stdout
    except subprocess.TimeoutExpired:
        o = "timeout"
    finally:
        with open(pb, "w") as f:
            f.write("// @generated: empty when no replay is in progress\n")
    ok = ("panicked at" in o) and _panic_matches(o, failed_descs)
    with open(path, "w") as f:
        f.write("// Concrete counterexample for property %s, harness gen::%s\n// values rebuilt from CBMC's text trace: %s\n"
                "// replay: copy into /verif/harness/src/playback.rs, then cd /verif/replay && cargo kani playback -Z concrete-playback -- playback::%s\n"
                % (prop, h.name, cmd, tname) + test + "\n/* native replay output (dev profile, real boomphf) — %s:\n%s\n*/\n"
                % ("REPRODUCED" if ok else "not reproduced", o[-2500:].replace("*/", "* /")))
    if ok:
        return True, path, "reproduced natively (%s)" % tname
    if "panicked at" in o:
        return False, path, "native run panicked, but not at a check the solver reported: not counted"
    return False, path, "counterexample does not reproduce natively" if "test result: ok" in o else "native replay did not run: " + o[-200:]


# ----------------------------------------------------------------------------- known findings
def load_known():
    known, fixed = [], []
    p = os.path.join(VERIF, "known_findings.txt")
    if os.path.exists(p):
        for line in open(p):
            line = line.strip()
            if not line or line.startswith("#"):
                continue
            if line.startswith("known:"):
                d = dict(kv.split("=", 1) for kv in line[6:].split("::")[0].split() if "=" in kv)
                d["text"] = line.split("::", 1)[1].strip() if "::" in line else ""
                known.append(d)
            elif line.startswith("fixed:"):
                fixed.append(line)
    return known, fixed


def match_known(known, prop, h, r):
    for k in known:
        if k.get("property") != prop:
            continue
        if not re.fullmatch(k.get("harness", ".*"), h.name):
            continue
        pat = k.get("check", ".*").replace("_", " ")
        if all(re.search(pat, c["desc"]) for c in r["failed_checks"]
               if not re.search(r"unwinding assertion", c["desc"])):
            return k
    return None


# ----------------------------------------------------------------------------- main
def setup():
    """Build the harness crate (and /repo as its dependency) once, then clone the target dir
    for every worker so that checks start from a warm cache."""
    prepare()
    jobs = int(os.environ.get("VERIF_JOBS", "14"))
    w0 = os.path.join(TARGET, "w0")
    r = sh("cargo kani -Z stubbing --only-codegen --target-dir %s" % w0, cwd=HARNESS)
    sys.stdout.write(r.stdout[-1500:])
    if r.returncode != 0:
        return 2
    for i in list(range(1, jobs)) + ["replay"]:
        d = os.path.join(TARGET, "w%s" % i if i != "replay" else "replay")
        if not os.path.exists(d):
            shutil.copytree(w0, d, symlinks=True)
    print("[setup] ok")
    return 0


def main():
    if len(sys.argv) >= 2 and sys.argv[1] == "setup":
        return setup()
    if len(sys.argv) < 3:
        print(__doc__)
        return 2
    prop, tier = sys.argv[1], sys.argv[2]
    only = None
    jobs = int(os.environ.get("VERIF_JOBS", "14"))
    args = sys.argv[3:]
    while args:
        a = args.pop(0)
        if a == "--only":
            only = re.compile(args.pop(0))
        elif a == "--jobs":
            jobs = int(args.pop(0))
    seed = int(os.environ.get("VERIF_SEED", "0") or 0)
    t0 = time.time()
    prepare()
    hs = [h for h in spec.all_harnesses() if prop in h.props]
    if tier == "quick":
        hs = [h for h in hs if h.tier == "quick"]
    if only:
        hs = [h for h in hs if only.search(h.name)]
        global PARTIAL_RUN
        PARTIAL_RUN = True
    if not hs:
        print("no harnesses for", prop)
        return 2
    sys.stderr.write("[run_check] %s %s: %d solver queries, %d workers\n" % (prop, tier, len(hs), jobs))
    wd = Watchdog(int(os.environ.get("VERIF_MEM_GB", "12" if tier == "quick" else "30")))
    wd.start()
    results = schedule(hs, tier, jobs, batch_size=6)
    known, _fixed = load_known()

    violations, inconclusive, known_hits, unreplayed = [], [], [], []
    for h in hs:
        r = results[h.name]
        if r["status"] == "PASS":
            continue
        if r["status"] == "FAIL":
            k = match_known(known, prop, h, r)
            if violations and not k and len(violations) >= MAX_REPLAYS:
                # a violation of this property has already been reproduced natively: further
                # counterexamples are listed, not replayed (each replay is a second solver run)
                r["replay"] = dict(reproduced=None, path="", detail="not replayed: %d violation(s) of this property already reproduced" % len(violations))
                unreplayed.append((h, r))
                continue
            rfn = replay_text if h.ofmt == "old" else replay
            rep, path, detail = rfn(prop, h, tier, [c["desc"] for c in r["failed_checks"]],
                                    [c["pid"] for c in r["failed_checks"] if c.get("pid")])
            r["replay"] = dict(reproduced=rep, path=path, detail=detail)
            if rep is True:
                if k:
                    known_hits.append((h, k, r))
                else:
                    violations.append((h, r, path))
            else:
                inconclusive.append((h, r, "counterexample: " + detail))
        else:
            inconclusive.append((h, r, r["status"] + ": " + r["reason"]))
    # ---- second engine (MIR -> SMT-LIB2, z3 + cvc5) for the properties that have one
    smt_queries = []
    if prop in SMT_ENGINES and not only:
        mod = __import__(SMT_ENGINES[prop])
        sys.stderr.write("[run_check] %s: running %s\n" % (prop, SMT_ENGINES[prop]))
        smt_queries = mod.run(tier, seed)
        for q in smt_queries:
            sys.stderr.write("  [%s] %-44s %-12s %6.1f s  %s\n" % (time.strftime("%H:%M:%S"), q["name"], q["status"], q["time"], q["detail"][:120]))
            if q["status"] == "FAIL":
                rep, text = mod.replay(q)
                rdir = os.path.join(VERIF, "replays", prop)
                os.makedirs(rdir, exist_ok=True)
                path = os.path.join(rdir, q["name"] + ".txt")
                with open(path, "w") as f:
                    f.write("SMT counterexample for %s / %s\n%s\nnative replay (real build, real AVX2 path):\n%s\n"
                            "re-run: printf '%%s\\n' <hex> | /verif/target/native/release/vnative acgt\n" % (prop, q["name"], q["detail"], text))
                q["replay"] = dict(reproduced=rep, path=path)
                hq = type("Q", (), {"name": q["name"]})()
                rq = dict(reason=q["detail"], log=path, failed_checks=[dict(desc=q["name"])])
                if rep is True:
                    k = match_known(known, prop, hq, rq)
                    if k:
                        known_hits.append((hq, k, rq))
                    else:
                        violations.append((hq, rq, path))
                else:
                    inconclusive.append((hq, rq, "SMT counterexample did not reproduce natively / could not be replayed"))
            elif q["status"] != "PASS":
                hq = type("Q", (), {"name": q["name"]})()
                inconclusive.append((hq, dict(reason=q["detail"], log=""), q["status"] + ": " + q["detail"][:200]))
    wd.stop = True

    for h, k, r in known_hits:
        print("KNOWN-FINDING: property=%s %s [harness %s]" % (prop, k.get("text", ""), h.name))
    for h, r, path in violations:
        print("VIOLATION property=%s replay=%s" % (prop, path))
        print("  harness %s: %s" % (h.name, r["reason"]))
    for h, r in unreplayed:
        print("COUNTEREXAMPLE-NOT-REPLAYED property=%s harness=%s %s (log %s)" % (prop, h.name, r["reason"][:160], r.get("log")))
    for h, r, why in inconclusive:
        print("INCONCLUSIVE property=%s harness=%s %s (log %s)" % (prop, h.name, why, r.get("log")))

    wall = time.time() - t0
    write_evidence(prop, tier, seed, hs, results, wall, violations, inconclusive, known_hits, wd, smt_queries)
    n_pass = sum(1 for h in hs if results[h.name]["status"] == "PASS") + sum(1 for q in smt_queries if q["status"] == "PASS")
    print("[run_check] %s %s: %d/%d queries discharged, %d violations, %d known, %d inconclusive, %.0f s"
          % (prop, tier, n_pass, len(hs) + len(smt_queries), len(violations), len(known_hits), len(inconclusive), wall))
    if violations:
        return 1
    if inconclusive:
        return 2
    return 0


def write_evidence(prop, tier, seed, hs, results, wall, violations, inconclusive, known_hits, wd, smt_queries=()):
    v = versions()
    passed = [h for h in hs if results[h.name]["status"] == "PASS"]
    nontrivial = [h for h in passed if results[h.name]["covers_total"] > 0
                  and results[h.name]["covers_sat"] == results[h.name]["covers_total"]]
    funcs = sorted({f for h in hs for f in h.funcs})
    stubs = sorted({s for h in hs for s in h.stubs})
    solver_time = sum(results[h.name]["time"] or 0 for h in hs)
    checks = sum(results[h.name]["checks"] for h in hs)
    samples = []
    for h in hs[:400]:
        r = results[h.name]
        samples.append(dict(harness="gen::" + h.name, call=h.call, unwind=h.unwind, cbmc_args=h.cbmc_args, bounds=h.bounds,
                            stubs=h.stubs, status=r["status"], solver_s=r["time"],
                            cbmc_checks=r["checks"], covers="%d/%d" % (r["covers_sat"], r["covers_total"]),
                            note=r["reason"][:200]))
    smt_q = [q for q in smt_queries if q.get("kind") == "query"]
    for q in smt_queries:
        samples.append(dict(harness="smt::" + q["name"], engine="mirsmt (nightly MIR -> SMT-LIB2; z3 4.8.12 and cvc5 1.0 must agree)",
                            bounds=q["bounds"], status=q["status"], solver_s=round(q["time"], 2), note=q["detail"][:300],
                            functions=q.get("funcs", [])[:40]))
        for fn in q.get("funcs", []):
            if fn not in funcs:
                funcs.append(fn)
    n_smt_pass = sum(1 for q in smt_q if q["status"] == "PASS")
    solver_time += sum(q["time"] for q in smt_queries)
    ev = dict(
        property_id=prop, tier=tier, seed=seed, level="model_checking",
        coverage=dict(
            evaluations=len(hs) + len(smt_q),
            distinct_nontrivial=len(nontrivial) + n_smt_pass,
            rule=("one evaluation = one CBMC/CaDiCaL query (a #[kani::proof] harness over kani::any() inputs, "
                  "compiled from /repo's working tree, unwinding assertions on); distinct = distinct harness "
                  "instantiations (type/shape parameters differ); non-trivial = verdict SUCCESSFUL and every "
                  "kani::cover! point of the harness proved reachable (vacuity witness)"),
            samples=samples,
            exhaustive=False,
            queries_discharged=len(passed) + n_smt_pass,
            queries_total=len(hs) + len(smt_q),
            smt_translator_validation=[q["detail"] for q in smt_queries if q.get("kind") == "validation"],
            queries_inconclusive=len(inconclusive),
            cbmc_assertions_checked=checks,
            solver_time_s=round(solver_time, 1),
            functions_encoded=funcs,
            stubs_and_models=[spec.STUB_TEXT[s] for s in stubs],
            peak_cbmc_rss_mb=wd.peak_kb // 1024,
            known_findings_hit=[dict(harness=h.name, text=k.get("text", "")) for h, k, r in known_hits],
            violations=[dict(harness=h.name, replay=p, checks=r["reason"][:300]) for h, r, p in violations],
            inconclusive=[dict(harness=h.name, why=w) for h, r, w in inconclusive],
            tools=v,
        ),
        assumptions=[
            "bounded claim: holds for every input inside each harness's stated bounds (see samples[].bounds); nothing is claimed outside them",
            "Kani 0.68 MIR->GOTO translation, CBMC 6.11 and CaDiCaL are trusted",
            "harness-side reference semantics (string-level oracles in /verif/harness/src) are trusted",
            "documented preconditions are assumed (in-range positions, bases < 4, ranks < 4^K, unused storage lanes zero)",
        ] + [spec.STUB_TEXT[s] for s in stubs],
        wall_s=round(wall, 1),
        violations=len(violations),
    )
    os.makedirs(os.path.join(VERIF, "evidence"), exist_ok=True)
    out = os.path.join(VERIF, "evidence", prop + ".json")
    if PARTIAL_RUN:
        # a --only run covers a subset of the registered check: keep the evidence file of the full run
        out = os.path.join(LOGS, "partial_evidence_%s.json" % prop)
    with open(out, "w") as f:
        json.dump(ev, f, indent=1)


if __name__ == "__main__":
    sys.exit(main())
