#!/bin/sh
# tools/probe2.sh <harness> [extra kani flags] — like probe.sh, but against a snapshot worktree of /repo HEAD
# (/tmp/repo_snap) through a synced copy of the harness crate, so that it is unaffected by seeded
# changes being applied to /repo at the same time. Development aid only; never used by a check.
h=$1; shift
mkdir -p /verif/logs /tmp/hprobe
rsync -a --delete --exclude target /verif/harness/ /tmp/hprobe/
sed -i 's#path = "/repo"#path = "/tmp/repo_snap"#' /tmp/hprobe/Cargo.toml
cd /tmp/hprobe || exit 2
CARGO_NET_OFFLINE=true timeout 3000 cargo kani -Z stubbing -Z unstable-options --harness-timeout 2400s --output-format terse --exact --target-dir /verif/target/q_$h --harness gen::$h "$@" > /verif/logs/probe_$h.log 2>&1
