#!/bin/sh
# tools/probe.sh <harness> [extra kani flags]  — run one harness in its own target dir, log to logs/probe_<h>.log
h=$1; shift
mkdir -p /verif/logs
cd /verif/harness || exit 2
CARGO_NET_OFFLINE=true timeout 3000 cargo kani -Z stubbing -Z unstable-options --harness-timeout 2400s --output-format terse --exact --target-dir /verif/target/p_$h --harness gen::$h "$@" > /verif/logs/probe_$h.log 2>&1
