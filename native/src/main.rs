//! vnative acgt  : stdin = one hex string per line (ASCII bytes); stdout per line:
//!   <len> <storage words hex, comma separated> <scalar words hex> <avx2 available 0/1>
use debruijn::dna_string::DnaString;
use debruijn::{base_to_bits, Mer};
use std::io::{self, BufRead};

fn hex(s: &str) -> Vec<u8> {
    (0..s.len() / 2)
        .map(|i| u8::from_str_radix(&s[2 * i..2 * i + 2], 16).unwrap())
        .collect()
}

fn main() {
    let mode = std::env::args().nth(1).unwrap_or_default();
    if mode != "acgt" {
        eprintln!("usage: vnative acgt < hexlines");
        std::process::exit(2);
    }
    let avx = if is_x86_feature_detected!("avx2") { 1 } else { 0 };
    for line in io::stdin().lock().lines() {
        let line = line.unwrap();
        let bytes = hex(line.trim());
        let s = DnaString::from_acgt_bytes(&bytes);
        let (st, len) = s.verif_raw();
        // scalar reference, written against the documented table only
        let mut words = vec![0u64; (bytes.len() + 31) / 32];
        for (i, b) in bytes.iter().enumerate() {
            words[i / 32] |= (base_to_bits(*b) as u64) << (62 - 2 * (i % 32));
        }
        let f = |w: &[u64]| w.iter().map(|x| format!("{:016x}", x)).collect::<Vec<_>>().join(",");
        let mut per_base_ok = s.len() == bytes.len();
        for (i, b) in bytes.iter().enumerate() {
            if i < s.len() && s.get(i) != base_to_bits(*b) {
                per_base_ok = false;
            }
        }
        println!("{} {} {} {} {}", len, f(st), f(&words), avx, if per_base_ok { 1 } else { 0 });
    }
}
