//! M1 — model of `boomphf` 0.6.0 used only inside the solver harnesses.
//!
//! Contract modelled (the one rust-debruijn relies on): for distinct keys, every key gets a
//! distinct slot in `0..n`; `get`/`get_key_id` return `Some` exactly for keys that were supplied
//! (the real crate verifies the key stored in the slot, see boomphf-0.6.0/src/hashmap.rs);
//! `get_key(id)` returns the key stored at slot `id`; `new_parallel == new`.
//! Slot = insertion index. Every harness that uses this model makes the rows' contents symbolic,
//! so each slot assignment the real MPHF could pick is covered by a relabelling of the rows.
pub mod hashmap {
    #[cfg(feature = "serde")]
    use serde::{Deserialize, Serialize};
    use std::borrow::Borrow;
    use std::fmt::Debug;
    use std::hash::Hash;
    use std::marker::PhantomData;

    #[derive(Debug, Clone)]
    #[cfg_attr(feature = "serde", derive(Serialize, Deserialize))]
    pub struct BoomHashMap<K: Hash, D> {
        pub keys: Vec<K>,
        pub values: Vec<D>,
    }

    #[inline]
    fn find<K: Borrow<Q>, Q: ?Sized + Eq>(keys: &[K], q: &Q) -> Option<usize> {
        let mut i = 0;
        while i < keys.len() {
            if keys[i].borrow() == q {
                return Some(i);
            }
            i += 1;
        }
        None
    }

    impl<K: Hash + Debug + PartialEq, D: Debug> BoomHashMap<K, D> {
        pub fn new(keys: Vec<K>, data: Vec<D>) -> BoomHashMap<K, D> {
            BoomHashMap { keys, values: data }
        }
        pub fn new_parallel(keys: Vec<K>, data: Vec<D>) -> BoomHashMap<K, D> {
            Self::new(keys, data)
        }
        pub fn get<Q: ?Sized>(&self, kmer: &Q) -> Option<&D>
        where
            K: Borrow<Q>,
            Q: Hash + Eq,
        {
            find(&self.keys, kmer).map(|i| &self.values[i])
        }
        pub fn get_mut<Q: ?Sized>(&mut self, kmer: &Q) -> Option<&mut D>
        where
            K: Borrow<Q>,
            Q: Hash + Eq,
        {
            match find(&self.keys, kmer) {
                Some(i) => Some(&mut self.values[i]),
                None => None,
            }
        }
        pub fn get_key_id<Q: ?Sized>(&self, kmer: &Q) -> Option<usize>
        where
            K: Borrow<Q>,
            Q: Hash + Eq,
        {
            find(&self.keys, kmer)
        }
        pub fn len(&self) -> usize {
            self.keys.len()
        }
        pub fn is_empty(&self) -> bool {
            self.keys.is_empty()
        }
        pub fn get_key(&self, id: usize) -> Option<&K> {
            if id > self.len() {
                None
            } else {
                Some(&self.keys[id])
            }
        }
    }

    #[derive(Debug, Clone)]
    #[cfg_attr(feature = "serde", derive(Serialize, Deserialize))]
    pub struct BoomHashMap2<K: Hash, D1, D2> {
        pub keys: Vec<K>,
        pub values: Vec<D1>,
        pub aux_values: Vec<D2>,
    }

    impl<K: Hash + Debug + PartialEq, D1: Debug, D2: Debug> BoomHashMap2<K, D1, D2> {
        pub fn new(keys: Vec<K>, values: Vec<D1>, aux_values: Vec<D2>) -> Self {
            BoomHashMap2 {
                keys,
                values,
                aux_values,
            }
        }
        pub fn new_parallel(keys: Vec<K>, values: Vec<D1>, aux_values: Vec<D2>) -> Self {
            Self::new(keys, values, aux_values)
        }
        pub fn get<Q: ?Sized>(&self, kmer: &Q) -> Option<(&D1, &D2)>
        where
            K: Borrow<Q>,
            Q: Hash + Eq,
        {
            find(&self.keys, kmer).map(|i| (&self.values[i], &self.aux_values[i]))
        }
        pub fn get_key_id<Q: ?Sized>(&self, kmer: &Q) -> Option<usize>
        where
            K: Borrow<Q>,
            Q: Hash + Eq,
        {
            find(&self.keys, kmer)
        }
        pub fn len(&self) -> usize {
            self.keys.len()
        }
        pub fn is_empty(&self) -> bool {
            self.keys.is_empty()
        }
        pub fn get_key(&self, id: usize) -> Option<&K> {
            if id > self.len() {
                None
            } else {
                Some(&self.keys[id])
            }
        }
        pub fn iter(&self) -> Boom2Iterator<'_, K, D1, D2> {
            Boom2Iterator {
                hash: self,
                index: 0,
            }
        }
    }

    pub struct Boom2Iterator<'a, K: Hash + 'a, D1: 'a, D2: 'a> {
        hash: &'a BoomHashMap2<K, D1, D2>,
        index: usize,
    }

    impl<'a, K: Hash, D1, D2> Iterator for Boom2Iterator<'a, K, D1, D2> {
        type Item = (&'a K, &'a D1, &'a D2);
        fn next(&mut self) -> Option<Self::Item> {
            if self.index == self.hash.keys.len() {
                return None;
            }
            let e = Some((
                &self.hash.keys[self.index],
                &self.hash.values[self.index],
                &self.hash.aux_values[self.index],
            ));
            self.index += 1;
            e
        }
    }

    impl<'a, K: Hash, D1, D2> IntoIterator for &'a BoomHashMap2<K, D1, D2> {
        type Item = (&'a K, &'a D1, &'a D2);
        type IntoIter = Boom2Iterator<'a, K, D1, D2>;
        fn into_iter(self) -> Boom2Iterator<'a, K, D1, D2> {
            Boom2Iterator {
                hash: self,
                index: 0,
            }
        }
    }

    #[allow(dead_code)]
    struct _P<K>(PhantomData<K>);
}
