//! Shared symbolic-value constructors and string-level reference semantics.
use debruijn::kmer::{IntHelp, IntKmer, KmerSize, VarIntKmer};
use debruijn::{Dir, Exts, Kmer, Mer};
use std::hash::Hash;
use std::marker::PhantomData;

/// Extra K markers for instantiations that are not shipped as aliases.
#[derive(Debug, Hash, Copy, Clone, Ord, PartialOrd, Eq, PartialEq)]
pub struct K4u8;
impl KmerSize for K4u8 {
    fn K() -> usize {
        4
    }
}
#[derive(Debug, Hash, Copy, Clone, Ord, PartialOrd, Eq, PartialEq)]
pub struct K1;
impl KmerSize for K1 {
    fn K() -> usize {
        1
    }
}
pub type Kmer31 = VarIntKmer<u64, debruijn::kmer::K31>;
/// partial-width type whose K fills the word exactly (mask corner: unused_bits == 0)
pub type Kmer4V = VarIntKmer<u8, K4u8>;

/// A k-mer type whose raw storage the harness can make symbolic and read back.
pub trait SymK: Kmer + Send + Sync {
    /// total bits of the storage word
    const TOTAL_BITS: usize;
    /// arbitrary storage, no invariant assumed
    fn any_raw() -> Self;
    fn raw(&self) -> u128;
    fn from_raw(v: u128) -> Self;

    /// INV: lanes above K are zero
    fn inv(&self) -> bool {
        let used = 2 * Self::k();
        used >= 128 || (self.raw() >> used) == 0
    }
    /// arbitrary k-mer satisfying INV (= arbitrary K-letter string)
    fn any_valid() -> Self {
        let k = Self::any_raw();
        kani::assume(k.inv());
        k
    }
    /// reference: base i of the string, by the documented layout
    /// (base 0 in the most significant used lane)
    fn rbase(&self, i: usize) -> u8 {
        ((self.raw() >> (2 * (Self::k() - 1 - i))) & 3) as u8
    }
}

macro_rules! symk_int {
    ($t:ty) => {
        impl SymK for IntKmer<$t> {
            const TOTAL_BITS: usize = <$t>::BITS as usize;
            fn any_raw() -> Self {
                IntKmer {
                    storage: kani::any(),
                }
            }
            fn raw(&self) -> u128 {
                self.storage as u128
            }
            fn from_raw(v: u128) -> Self {
                IntKmer { storage: v as $t }
            }
        }
        impl<KS: KmerSize + Send + Sync> SymK for VarIntKmer<$t, KS> {
            const TOTAL_BITS: usize = <$t>::BITS as usize;
            fn any_raw() -> Self {
                VarIntKmer {
                    storage: kani::any(),
                    phantom: PhantomData,
                }
            }
            fn raw(&self) -> u128 {
                self.storage as u128
            }
            fn from_raw(v: u128) -> Self {
                VarIntKmer {
                    storage: v as $t,
                    phantom: PhantomData,
                }
            }
        }
    };
}
symk_int!(u8);
symk_int!(u16);
symk_int!(u32);
symk_int!(u64);
symk_int!(u128);

pub fn any_base() -> u8 {
    let b: u8 = kani::any();
    kani::assume(b < 4);
    b
}

pub fn any_dir() -> Dir {
    if kani::any() {
        Dir::Left
    } else {
        Dir::Right
    }
}

pub fn any_exts() -> Exts {
    Exts::new(kani::any())
}

pub fn any_index(n: usize) -> usize {
    let i: usize = kani::any();
    kani::assume(i < n);
    i
}

pub fn is_left(d: Dir) -> bool {
    matches!(d, Dir::Left)
}

pub fn same_dir(a: Dir, b: Dir) -> bool {
    is_left(a) == is_left(b)
}
