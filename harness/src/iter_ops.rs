//! C13 (iterator / bulk clauses): iter_kmers, iter_kmer_exts, kmers_from_bytes/ascii over every
//! container, concrete container length N (symbolic contents).
use crate::common::*;
use crate::graph_ops::any_bases;
use debruijn::dna_string::{DnaString, DnaStringSlice};
use debruijn::vmer::Lmer;
use debruijn::{base_to_bits, Dir, DnaBytes, DnaSlice, Exts, Kmer, Mer, Vmer};

/// generic body: `v` spells `bases[0..N]`
fn check_iter_kmers<K: SymK, V: Vmer, const N: usize>(v: &V, bases: &[u8; N]) {
    assert!(v.len() == N);
    let expect = if N >= K::k() { N - K::k() + 1 } else { 0 };
    let mut it = v.iter_kmers::<K>();
    let mut i = 0;
    let j = any_index(K::k());
    while i < expect {
        match it.next() {
            Some(k) => {
                assert!(k.get(j) == bases[i + j]);
                assert!(k.inv());
                if i + K::k() <= N {
                    let g: K = v.get_kmer(i);
                    assert!(g == k);
                }
            }
            None => assert!(false, "k-mer iterator ended early"),
        }
        i += 1;
    }
    assert!(it.next().is_none());
    assert!(it.next().is_none());
}

fn check_iter_kmer_exts<K: SymK, V: Vmer, const N: usize>(v: &V, bases: &[u8; N]) {
    let seq_exts = any_exts();
    let expect = if N >= K::k() { N - K::k() + 1 } else { 0 };
    let mut it = v.iter_kmer_exts::<K>(seq_exts);
    let mut i = 0;
    let j = any_index(K::k());
    let b = any_base();
    while i < expect {
        match it.next() {
            Some((k, e)) => {
                assert!(k.get(j) == bases[i + j]);
                // left flank: the previous base, or the caller's boundary extension at the start
                if i == 0 {
                    assert!(e.has_ext(Dir::Left, b) == seq_exts.has_ext(Dir::Left, b));
                } else {
                    assert!(e.has_ext(Dir::Left, b) == (bases[i - 1] == b));
                }
                if i == expect - 1 {
                    assert!(e.has_ext(Dir::Right, b) == seq_exts.has_ext(Dir::Right, b));
                } else {
                    assert!(e.has_ext(Dir::Right, b) == (bases[i + K::k()] == b));
                }
            }
            None => assert!(false, "k-mer/exts iterator ended early"),
        }
        i += 1;
    }
    assert!(it.next().is_none());
    kani::cover!(expect == 0 || seq_exts.val == 0xa5);
}

pub fn dnaslice<K: SymK, const N: usize>() {
    let bases = any_bases::<N>();
    let v = DnaSlice(&bases);
    check_iter_kmers::<K, _, N>(&v, &bases);
    check_iter_kmer_exts::<K, _, N>(&v, &bases);
    if N > 0 {
        let i = any_index(N);
        assert!(v.get(i) == bases[i]);
    }
    assert!(v.is_empty() == (N == 0));
}

pub fn dnabytes<K: SymK, const N: usize>() {
    let bases = any_bases::<N>();
    let mut v = DnaBytes(bases.to_vec());
    check_iter_kmers::<K, _, N>(&v, &bases);
    check_iter_kmer_exts::<K, _, N>(&v, &bases);
    if N > 0 {
        let i = any_index(N);
        assert!(v.get(i) == bases[i]);
        let b = any_base();
        v.set_mut(i, b);
        assert!(v.get(i) == b && v.len() == N);
    }
    core::mem::forget(v);
}

pub fn dnastring<K: SymK, const N: usize>() {
    let bases = any_bases::<N>();
    let v = DnaString::from_bytes(&bases);
    check_iter_kmers::<K, _, N>(&v, &bases);
    check_iter_kmer_exts::<K, _, N>(&v, &bases);
    core::mem::forget(v);
}

/// forward slice at offset 1 of a longer string, and the rc view of the reversed-complemented text
pub fn dnastringslice<K: SymK, const N: usize, const N2: usize>() {
    // N2 == N + 2: the slice [1, N+1) of an (N+2)-base string
    let outer = any_bases::<N2>();
    let s = DnaString::from_bytes(&outer);
    let mut inner = [0u8; N];
    let mut i = 0;
    while i < N {
        inner[i] = outer[i + 1];
        i += 1;
    }
    let fwd = s.slice(1, N + 1);
    check_iter_kmers::<K, _, N>(&fwd, &inner);
    check_iter_kmer_exts::<K, _, N>(&fwd, &inner);
    // rc view spells the reverse complement
    let mut rci = [0u8; N];
    let mut i = 0;
    while i < N {
        rci[i] = 3 - inner[N - 1 - i];
        i += 1;
    }
    let r = fwd.rc();
    check_iter_kmers::<K, _, N>(&r, &rci);
    core::mem::forget(s);
}

pub fn lmer<K: SymK, const N: usize>() {
    let bases = any_bases::<N>();
    let v: Lmer<[u64; 1]> = Lmer::from_slice(&bases);
    check_iter_kmers::<K, _, N>(&v, &bases);
    check_iter_kmer_exts::<K, _, N>(&v, &bases);
}

/// kmers_from_bytes / kmers_from_ascii: the vector of all k-mers
pub fn kmers_from<K: SymK, const N: usize, const N1: usize>() {
    let bases: [u8; N1] = kani::any();
    let mut i = 0;
    while i < N {
        kani::assume(bases[i] < 4);
        i += 1;
    }
    let expect = if N >= K::k() { N - K::k() + 1 } else { 0 };
    let v = K::kmers_from_bytes(&bases[..N]);
    assert!(v.len() == expect);
    let j = any_index(K::k());
    if expect > 0 {
        let i = any_index(expect);
        assert!(v[i].get(j) == bases[i + j]);
        assert!(v[i].inv());
    }
    // ASCII variant on the same text rendered as letters (any case), plus junk -> A
    let asc: [u8; N1] = kani::any();
    let w = K::kmers_from_ascii(&asc[..N]);
    assert!(w.len() == expect);
    if expect > 0 {
        let i = any_index(expect);
        assert!(w[i].get(j) == base_to_bits(asc[i + j]));
        assert!(w[i].inv());
    }
    kani::cover!(N == 0 || asc[0] == b'c');
    kani::cover!(v.len() == expect);
    core::mem::forget((v, w));
}
