//! C15 (string slices), plus the slice clauses of C12 / C13.
//! State = arbitrary INV_S string (B blocks) + arbitrary slice record {start, length, is_rc}
//! with start + length <= len (the fields are public; every such record is reachable by
//! slice()/rc() from the string, which the `ctor`/`subslice` harnesses establish).
use crate::common::*;
use crate::dnastring_ops::{any_ds, any_ds_len, inv_s, pad_ok, rb};
use debruijn::dna_string::{DnaString, DnaStringSlice};
use debruijn::{Dir, Kmer, Mer, Vmer};
use std::fmt::Write;

pub fn any_slice<'a>(s: &'a DnaString, len: usize) -> DnaStringSlice<'a> {
    let start: usize = kani::any();
    let length: usize = kani::any();
    kani::assume(start <= len && length <= len - start);
    DnaStringSlice {
        dna_string: s,
        start,
        length,
        is_rc: kani::any(),
    }
}

/// reference view of a slice record over the raw string
pub fn view(raw: &[u64], start: usize, length: usize, is_rc: bool, i: usize) -> u8 {
    if is_rc {
        3 - rb(raw, start + length - 1 - i)
    } else {
        rb(raw, start + i)
    }
}

/// get / len / is_empty / iter
pub fn read<const B: usize>() {
    let (s, raw, len) = any_ds::<B>();
    let sl = any_slice(&s, len);
    let n = sl.length;
    assert!(sl.len() == n && sl.is_empty() == (n == 0));
    if n > 0 {
        let i = any_index(n);
        let e = view(&raw, sl.start, n, sl.is_rc, i);
        assert!(sl.get(i) == e);
        let mut it = sl.iter();
        assert!(it.next() == Some(view(&raw, sl.start, n, sl.is_rc, 0)));
        let mut it2 = (&sl).into_iter();
        assert!(it2.next() == Some(view(&raw, sl.start, n, sl.is_rc, 0)));
        kani::cover!(sl.is_rc && i == 0 && e == 2);
        kani::cover!(!sl.is_rc && sl.start > 32 * (B - 1) && i == n - 1);
    }
    kani::cover!(n == 0);
    kani::cover!(n == len && len == 32 * B);
    core::mem::forget(s);
}

/// prefix / suffix / slice of the string itself
pub fn ctor<const B: usize>() {
    let (s, raw, len) = any_ds::<B>();
    let k: usize = kani::any();
    kani::assume(k <= len);
    let p = s.prefix(k);
    assert!(p.start == 0 && p.length == k && !p.is_rc);
    let q = s.suffix(k);
    assert!(q.start == len - k && q.length == k && !q.is_rc);
    let a: usize = kani::any();
    let b: usize = kani::any();
    kani::assume(a <= b && b <= len);
    let m = s.slice(a, b);
    assert!(m.start == a && m.length == b - a && !m.is_rc);
    if k > 0 {
        let i = any_index(k);
        assert!(p.get(i) == rb(&raw, i));
        assert!(q.get(i) == rb(&raw, len - k + i));
    }
    if b > a {
        let i = any_index(b - a);
        assert!(m.get(i) == rb(&raw, a + i));
    }
    kani::cover!(k == len);
    kani::cover!(a > 0 && b < len && b > a);
    core::mem::forget(s);
}

/// slice(a,b) and rc() from an ARBITRARY slice state: the result denotes exactly the
/// sub-view / the reverse complement, and is again a valid slice record (so nesting to any
/// depth and any interleaving with rc follows by induction).
pub fn subslice<const B: usize>() {
    let (s, raw, len) = any_ds::<B>();
    let sl = any_slice(&s, len);
    let n = sl.length;
    let a: usize = kani::any();
    let b: usize = kani::any();
    kani::assume(a <= b && b <= n);
    let t = sl.slice(a, b);
    assert!(t.length == b - a && t.is_rc == sl.is_rc);
    assert!(t.start <= len && t.length <= len - t.start);
    if b > a {
        let i = any_index(b - a);
        assert!(t.get(i) == view(&raw, sl.start, n, sl.is_rc, a + i));
    }
    let r = sl.rc();
    assert!(r.start == sl.start && r.length == n && r.is_rc != sl.is_rc);
    if n > 0 {
        let i = any_index(n);
        assert!(r.get(i) == 3 - view(&raw, sl.start, n, sl.is_rc, n - 1 - i));
    }
    let rr = r.rc();
    assert!(rr.start == sl.start && rr.length == n && rr.is_rc == sl.is_rc);
    kani::cover!(sl.is_rc && a > 0 && b < n && b > a);
    kani::cover!(!sl.is_rc && a > 0 && b == n);
    core::mem::forget(s);
}

/// == on two slices (of the same string, any offsets/orientations), length <= L
pub fn eq<const B: usize, const L: usize>() {
    let (s, raw, len) = any_ds::<B>();
    let x = any_slice(&s, len);
    let y = any_slice(&s, len);
    kani::assume(x.length <= L && y.length <= L);
    let mut same = x.length == y.length;
    let mut i = 0;
    while i < L {
        if i < x.length && i < y.length
            && view(&raw, x.start, x.length, x.is_rc, i) != view(&raw, y.start, y.length, y.is_rc, i)
        {
            same = false;
        }
        i += 1;
    }
    assert!((x == y) == same);
    kani::cover!(same && x.length == L && x.start != y.start);
    kani::cover!(same && x.is_rc != y.is_rc && x.length > 1);
    kani::cover!(!same && x.length == y.length);
    core::mem::forget(s);
}

/// C13: get_kmer on a slice (forward and rc, every offset) over a string of exactly 32*B bases.
pub fn get_kmer<K: SymK, const B: usize>() {
    let (s, raw) = any_ds_len::<B>(32 * B);
    let len = 32 * B;
    let sl = any_slice(&s, len);
    let n = sl.length;
    kani::assume(n >= K::k());
    let pos: usize = kani::any();
    kani::assume(pos <= n - K::k());
    let j = any_index(K::k());
    let k: K = sl.get_kmer(pos);
    assert!(k.get(j) == view(&raw, sl.start, n, sl.is_rc, pos + j));
    assert!(k.inv());
    if pos == 0 {
        assert!(sl.first_kmer::<K>() == k);
    }
    if pos == n - K::k() {
        assert!(sl.last_kmer::<K>() == k);
        assert!(sl.term_kmer::<K>(Dir::Right) == k);
    }
    kani::cover!(sl.is_rc && pos > 0);
    kani::cover!(!sl.is_rc && (sl.start + pos) % 32 != 0 && k.get(j) == 3);
    core::mem::forget(s);
}

/// C12: the i-th k-mer of the reverse complement is the rc of the (n-K-i)-th k-mer.
pub fn get_kmer_rc_commute<K: SymK, const B: usize>() {
    let (s, _raw) = any_ds_len::<B>(32 * B);
    let len = 32 * B;
    let sl = any_slice(&s, len);
    let n = sl.length;
    kani::assume(n >= K::k());
    let pos: usize = kani::any();
    kani::assume(pos <= n - K::k());
    let k: K = sl.get_kmer(pos);
    let r = sl.rc();
    let kr: K = r.get_kmer(n - K::k() - pos);
    assert!(kr == k.rc());
    kani::cover!(sl.is_rc && pos > 0 && n > K::k() + pos);
    kani::cover!(!sl.is_rc);
    core::mem::forget(s);
}

/// bytes / ascii / to_dna_string / to_owned with a concrete output length LEN
pub fn render<const B: usize, const LEN: usize>() {
    let (s, raw, len) = any_ds::<B>();
    let start: usize = kani::any();
    kani::assume(LEN <= len && start <= len - LEN);
    let sl = DnaStringSlice {
        dna_string: &s,
        start,
        length: LEN,
        is_rc: kani::any(),
    };
    let b = sl.bytes();
    let a = sl.ascii();
    let t = sl.to_dna_string();
    let o = sl.to_owned();
    assert!(b.len() == LEN && a.len() == LEN && t.len() == LEN && o.len() == LEN);
    assert!(inv_s(&o));
    if LEN > 0 {
        let j = any_index(LEN);
        let e = view(&raw, start, LEN, sl.is_rc, j);
        assert!(b[j] == e);
        assert!(a[j] == b"ACGT"[e as usize]);
        assert!(t.as_bytes()[j] == b"ACGT"[e as usize]);
        assert!(o.get(j) == e);
    }
    kani::cover!(sl.is_rc);
    kani::cover!(!sl.is_rc && start > 0);
    core::mem::forget((b, a, t, o));
    core::mem::forget(s);
}

/// fixed-array `fmt::Write` sink
pub struct Sink {
    pub buf: [u8; 16],
    pub n: usize,
}
impl Write for Sink {
    fn write_str(&mut self, s: &str) -> std::fmt::Result {
        let b = s.as_bytes();
        let mut i = 0;
        while i < b.len() {
            if self.n < 16 {
                self.buf[self.n] = b[i];
            }
            self.n += 1;
            i += 1;
        }
        Ok(())
    }
}

/// Display of a slice of concrete length LEN: the view, as text
pub fn display<const LEN: usize>() {
    let (s, raw, len) = any_ds::<1>();
    let start: usize = kani::any();
    kani::assume(LEN <= len && start <= len - LEN);
    let sl = DnaStringSlice {
        dna_string: &s,
        start,
        length: LEN,
        is_rc: kani::any(),
    };
    let mut w = Sink { buf: [0; 16], n: 0 };
    let _ = write!(w, "{}", sl);
    assert!(w.n == LEN);
    let j = any_index(LEN);
    assert!(w.buf[j] == b"ACGT"[view(&raw, start, LEN, sl.is_rc, j) as usize]);
    kani::cover!(sl.is_rc);
    kani::cover!(!sl.is_rc && start > 0);
    core::mem::forget(s);
}

/// Debug form of a slice (length < 256 branch): the view, as text. START and LEN concrete
/// (the rendering loop's trip count must be static for the solver), content and orientation
/// symbolic.
pub fn debug<const START: usize, const LEN: usize>() {
    let (s, raw) = any_ds_len::<1>(8);
    let sl = DnaStringSlice {
        dna_string: &s,
        start: START,
        length: LEN,
        is_rc: kani::any(),
    };
    let mut w = Sink { buf: [0; 16], n: 0 };
    let _ = write!(w, "{:?}", sl);
    assert!(w.n == LEN);
    let j = any_index(LEN);
    assert!(w.buf[j] == b"ACGT"[view(&raw, START, LEN, sl.is_rc, j) as usize]);
    kani::cover!(sl.is_rc);
    kani::cover!(!sl.is_rc);
    core::mem::forget(s);
}

/// hamming_dist, short lengths: two fully symbolic strings, every offset / orientation.
/// LEN concrete (so the loops have concrete trip counts), B blocks each.
pub fn hamming_small<const B: usize, const LEN: usize>() {
    let (s1, r1, l1) = any_ds::<B>();
    let (s2, r2, l2) = any_ds::<B>();
    let a1: usize = kani::any();
    let a2: usize = kani::any();
    kani::assume(LEN <= l1 && a1 <= l1 - LEN);
    kani::assume(LEN <= l2 && a2 <= l2 - LEN);
    let x = DnaStringSlice {
        dna_string: &s1,
        start: a1,
        length: LEN,
        is_rc: kani::any(),
    };
    let y = DnaStringSlice {
        dna_string: &s2,
        start: a2,
        length: LEN,
        is_rc: kani::any(),
    };
    let mut n = 0u32;
    let mut i = 0;
    while i < LEN {
        if view(&r1, a1, LEN, x.is_rc, i) != view(&r2, a2, LEN, y.is_rc, i) {
            n += 1;
        }
        i += 1;
    }
    assert!(x.hamming_dist(&y) == n);
    kani::cover!(n == LEN as u32);
    kani::cover!(LEN == 0 || (n == 1 && x.is_rc && !y.is_rc));
    core::mem::forget((s1, s2));
}

/// hamming_dist, medium lengths: two fully symbolic strings of exactly LEN bases, whole-string
/// slices, orientations symbolic.
pub fn hamming_whole<const B: usize, const LEN: usize>() {
    let (s1, r1) = any_ds_len::<B>(LEN);
    let (s2, r2) = any_ds_len::<B>(LEN);
    let x = DnaStringSlice {
        dna_string: &s1,
        start: 0,
        length: LEN,
        is_rc: kani::any(),
    };
    let y = DnaStringSlice {
        dna_string: &s2,
        start: 0,
        length: LEN,
        is_rc: kani::any(),
    };
    let mut n = 0u32;
    let mut i = 0;
    while i < LEN {
        if view(&r1, 0, LEN, x.is_rc, i) != view(&r2, 0, LEN, y.is_rc, i) {
            n += 1;
        }
        i += 1;
    }
    assert!(x.hamming_dist(&y) == n);
    kani::cover!(n == LEN as u32);
    kani::cover!(n == 1 && x.is_rc && !y.is_rc);
    core::mem::forget((s1, s2));
}

/// hamming_dist between two slices of length LEN whose starts are drawn independently from
/// {0, 1, 32, 33} (block-aligned and not, equal and different) over two fully symbolic 96-base
/// strings; orientations symbolic.
pub fn hamming_offsets<const LEN: usize>() {
    let (s1, r1) = any_ds_len::<3>(96);
    let (s2, r2) = any_ds_len::<3>(96);
    let pick = || -> usize {
        let hi: bool = kani::any();
        let lo: bool = kani::any();
        (if hi { 32 } else { 0 }) + (if lo { 1 } else { 0 })
    };
    let a1 = pick();
    let a2 = pick();
    let x = DnaStringSlice {
        dna_string: &s1,
        start: a1,
        length: LEN,
        is_rc: kani::any(),
    };
    let y = DnaStringSlice {
        dna_string: &s2,
        start: a2,
        length: LEN,
        is_rc: kani::any(),
    };
    let mut n = 0u32;
    let mut i = 0;
    while i < LEN {
        if view(&r1, a1, LEN, x.is_rc, i) != view(&r2, a2, LEN, y.is_rc, i) {
            n += 1;
        }
        i += 1;
    }
    assert!(x.hamming_dist(&y) == n);
    kani::cover!(a1 == 0 && a2 == 32 && !x.is_rc && !y.is_rc && n > 3);
    kani::cover!(a1 == 33 && a2 == 1 && x.is_rc);
    core::mem::forget((s1, s2));
}

/// hamming_dist, long lengths (>= 1024 exercises the block loop): the second string equals
/// the first except at two symbolic positions holding symbolic bases; expected distance is the
/// number of positions actually changed. NB = blocks, LEN concrete.
pub fn hamming_sparse<const NB: usize, const LEN: usize>() {
    let raw1: [u64; NB] = kani::any();
    kani::assume(pad_ok(&raw1, LEN));
    let p1 = any_index(LEN);
    let p2 = any_index(LEN);
    let b1 = any_base();
    let b2 = any_base();
    let mut raw2 = raw1;
    let sh1 = 62 - 2 * (p1 % 32);
    raw2[p1 / 32] = (raw2[p1 / 32] & !(3u64 << sh1)) | ((b1 as u64) << sh1);
    let sh2 = 62 - 2 * (p2 % 32);
    raw2[p2 / 32] = (raw2[p2 / 32] & !(3u64 << sh2)) | ((b2 as u64) << sh2);
    let mut e = 0u32;
    if p1 == p2 {
        if rb(&raw1, p1) != b2 {
            e = 1;
        }
    } else {
        if rb(&raw1, p1) != b1 {
            e += 1;
        }
        if rb(&raw1, p2) != b2 {
            e += 1;
        }
    }
    let s1 = DnaString::verif_from_raw(raw1.to_vec(), LEN);
    let s2 = DnaString::verif_from_raw(raw2.to_vec(), LEN);
    let x = s1.slice(0, LEN);
    let y = s2.slice(0, LEN);
    let d = x.hamming_dist(&y);
    assert!(d == e);
    kani::cover!(e == 2 && p1 == 0 && p2 == LEN - 1);
    kani::cover!(e == 0);
    core::mem::forget((s1, s2));
}
