//! Solver harnesses (Kani) for rust-debruijn, properties C02..C18.
//! Generic check bodies live in the modules below; the concrete `#[kani::proof]`
//! instantiations are generated into `gen.rs` by /verif/tools/spec.py on every run.
#![cfg_attr(kani, feature(allocator_api))]
#![allow(clippy::all)]
#![allow(dead_code, unused_imports, non_snake_case)]

#[cfg(kani)]
pub mod common;
#[cfg(kani)]
pub mod kmer_ops;
#[cfg(kani)]
pub mod exts_ops;
#[cfg(kani)]
pub mod lmer_ops;
#[cfg(kani)]
pub mod dnastring_ops;
#[cfg(kani)]
pub mod slice_ops;
#[cfg(kani)]
pub mod graph_ops;
#[cfg(kani)]
pub mod ascii_ops;
#[cfg(kani)]
pub mod iter_ops;
#[cfg(kani)]
pub mod msp_ops;
#[cfg(kani)]
pub mod step_ops;
#[cfg(kani)]
pub mod filter_ops;
#[cfg(kani)]
pub mod walk_ops;
#[cfg(kani)]
pub mod export_ops;
#[cfg(kani)]
pub mod stubs;
#[cfg(kani)]
pub mod gen;
#[cfg(all(kani, test))]
mod playback;
