//! C16: ASCII ingestion (Kani part). The AVX2 kernels themselves are decided by tools/smt_c16.py;
//! here: the scalar tables, the scalar path of from_acgt_bytes, and the *chunking* of the vector
//! path with the two kernels replaced by their (SMT-proved) scalar specification.
use crate::common::*;
use crate::dnastring_ops::inv_s;
use debruijn::dna_string::DnaString;
use debruijn::{base_to_bits, bits_to_ascii, bits_to_base, complement, dna_only_base_to_bits, is_valid_base, Mer};

/// documented table: A/C/G/T in either case -> 0/1/2/3; anything else is "not a base"
pub fn table(c: u8) -> Option<u8> {
    if c == 65 || c == 97 {
        Some(0)
    } else if c == 67 || c == 99 {
        Some(1)
    } else if c == 71 || c == 103 {
        Some(2)
    } else if c == 84 || c == 116 {
        Some(3)
    } else {
        None
    }
}

/// all 256 inputs of every scalar table
pub fn tables() {
    let c: u8 = kani::any();
    let t = table(c);
    assert!(base_to_bits(c) == t.unwrap_or(0));
    assert!(dna_only_base_to_bits(c) == t);
    assert!(is_valid_base(c) == t.is_some());
    let up = match t {
        Some(0) => b'A',
        Some(1) => b'C',
        Some(2) => b'G',
        Some(3) => b'T',
        _ => b'A',
    };
    // rendering back: upper-cased input, non-ACGT -> A
    assert!(bits_to_ascii(base_to_bits(c)) == up);
    assert!(bits_to_base(base_to_bits(c)) == up as char);
    let b: u8 = kani::any();
    assert!(bits_to_ascii(b) == if b < 4 { b"ACGT"[b as usize] } else { b'X' });
    assert!(bits_to_base(b) == if b < 4 { b"ACGT"[b as usize] as char } else { 'X' });
    if b < 4 {
        assert!(complement(b) == 3 - b);
    }
    assert!(complement(b) < 4);
    kani::cover!(c == b't');
    kani::cover!(c > 127 && t.is_none());
    kani::cover!(b == 200);
}

/// S3a: CPU feature detection says "no AVX2" (scalar path)
pub fn avx2_no() -> bool {
    false
}
/// S3b: CPU feature detection says "AVX2 available" (vector path)
pub fn avx2_yes() -> bool {
    true
}

/// from_acgt_bytes over N symbolic bytes (all 256 values in every lane): every base is the table
/// value (non-ACGT -> A), INV_S, independent of which path handled the byte.
pub fn from_acgt_bytes<const N: usize, const N1: usize>() {
    let src: [u8; N1] = kani::any();
    let s = DnaString::from_acgt_bytes(&src[..N]);
    assert!(s.len() == N);
    assert!(inv_s(&s));
    if N > 0 {
        let j = any_index(N);
        assert!(s.get(j) == table(src[j]).unwrap_or(0));
    }
    kani::cover!(N == 0 || (table(src[0]).is_none() && src[0] > 127));
    kani::cover!(N == 0 || src[N - 1] == b'g');
    kani::cover!(s.len() == N);
    core::mem::forget(s);
}

/// scalar specification of the two kernels, used as stubs for the chunking harness
/// (proved equal to the real kernels for all 256^32 blocks by smt_c16).
pub mod kernel_spec {
    use std::arch::x86_64::__m256i;
    pub unsafe fn convert_bases(bytes: &[u8]) -> (__m256i, bool) {
        assert!(bytes.len() == 32);
        let mut out = [0u8; 32];
        let mut valid = true;
        let mut i = 0;
        while i < 32 {
            match super::table(bytes[i]) {
                Some(v) => out[i] = v,
                None => valid = false,
            }
            i += 1;
        }
        (core::mem::transmute::<[u8; 32], __m256i>(out), valid)
    }
    pub unsafe fn pack_32_bases(bases: __m256i) -> u64 {
        let b = core::mem::transmute::<__m256i, [u8; 32]>(bases);
        let mut r = 0u64;
        let mut i = 0;
        while i < 32 {
            r |= ((b[i] & 3) as u64) << (62 - 2 * i);
            i += 1;
        }
        r
    }
}

/// from_acgt_bytes_hashn: ACGT untouched, every substituted value < 4, deterministic.
pub fn hashn<const N: usize, const R: usize>() {
    let src: [u8; N] = kani::any();
    let name: [u8; R] = kani::any();
    let a = DnaString::from_acgt_bytes_hashn(&src, &name);
    let b = DnaString::from_acgt_bytes_hashn(&src, &name);
    assert!(a.len() == N && inv_s(&a));
    assert!(a == b);
    let j = any_index(N);
    match table(src[j]) {
        Some(v) => assert!(a.get(j) == v),
        None => assert!(a.get(j) < 4),
    }
    kani::cover!(table(src[j]).is_none());
    kani::cover!(table(src[j]) == Some(2));
    core::mem::forget((a, b));
}

/// from_acgt_bytes_hashn is a function of (read name, position): two reads with the same name that
/// both hold a non-ACGT byte at position p get the same base there, whatever else the reads hold.
pub fn hashn_position<const N: usize, const R: usize>() {
    let s1: [u8; N] = kani::any();
    let s2: [u8; N] = kani::any();
    let name: [u8; R] = kani::any();
    let p = any_index(N);
    kani::assume(table(s1[p]).is_none() && table(s2[p]).is_none());
    let a = DnaString::from_acgt_bytes_hashn(&s1, &name);
    let b = DnaString::from_acgt_bytes_hashn(&s2, &name);
    assert!(a.get(p) == b.get(p));
    assert!(a.get(p) < 4);
    kani::cover!(p == N - 1 && table(s1[0]).is_none() && table(s2[0]).is_some());
    core::mem::forget((a, b));
}

/// from_dna_only_string on N ASCII chars: exactly the maximal ACGT runs.
pub fn dna_only<const N: usize>() {
    let src: [u8; N] = kani::any();
    let mut i = 0;
    while i < N {
        kani::assume(src[i] < 128);
        i += 1;
    }
    let st = unsafe { std::str::from_utf8_unchecked(&src) };
    let v = DnaString::from_dna_only_string(st);
    // reference: scan runs
    let mut runs = 0usize;
    let mut in_run = false;
    let mut i = 0;
    while i < N {
        let ok = table(src[i]).is_some();
        if ok && !in_run {
            runs += 1;
        }
        in_run = ok;
        i += 1;
    }
    assert!(v.len() == runs);
    // first run: starts at first valid char
    if runs > 0 {
        let mut p = 0;
        while p < N && table(src[p]).is_none() {
            p += 1;
        }
        let mut q = p;
        while q < N && table(src[q]).is_some() {
            q += 1;
        }
        assert!(v[0].len() == q - p);
        assert!(v[0].get(0) == table(src[p]).unwrap());
        assert!(v[0].get(q - p - 1) == table(src[q - 1]).unwrap());
    }
    kani::cover!(runs == 2 || N < 3);
    kani::cover!(runs == 0);
    core::mem::forget(v);
}
