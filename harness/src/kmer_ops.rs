//! C10 / C11 / C12(k-mer part): every k-mer operation against the K-letter string it denotes.
//! The string is read through `SymK::rbase` (documented layout) — `get` is checked against it
//! first, every other operation is then specified position-by-position.
use crate::common::*;
use debruijn::{base_to_bits, bits_to_base, Dir, Exts, Kmer, Mer, MerImmut};
use std::cmp::Ordering;
use std::hash::{Hash, Hasher};

/// C10: `get`, `len`, `is_empty`, `k()`, `empty()`
pub fn get<K: SymK>() {
    let k = K::any_valid();
    let i = any_index(K::k());
    assert!(k.get(i) == k.rbase(i));
    assert!(k.len() == K::k());
    assert!(!k.is_empty());
    let e = K::empty();
    assert!(e.raw() == 0 && e.get(i) == 0);
    kani::cover!(k.get(i) == 3 && i == 0);
    kani::cover!(k.get(i) == 2 && i == K::k() - 1);
}

/// C10: `set_mut` / `set` change exactly the addressed base. C11-L1: INV preserved.
pub fn set<K: SymK>() {
    let k = K::any_valid();
    let i = any_index(K::k());
    let j = any_index(K::k());
    let b = any_base();
    let mut k2 = k;
    k2.set_mut(i, b);
    assert!(k2.get(j) == if j == i { b } else { k.get(j) });
    assert!(k2.inv());
    let k3 = k.set(i, b);
    assert!(k3 == k2);
    kani::cover!(i == 0 && j == 0 && b == 3);
    kani::cover!(i != j && k.get(j) != 0);
}

/// C10: `set_slice_mut(pos, n, value)` for every pos, every n in 1..=min(32,K-pos), every
/// 64-bit value (garbage below the run included). C11-L1: INV preserved.
pub fn set_slice<K: SymK>() {
    let k = K::any_valid();
    let pos: usize = kani::any();
    let n: usize = kani::any();
    kani::assume(pos < K::k());
    kani::assume(n >= 1 && n <= 32 && pos + n <= K::k());
    let value: u64 = kani::any();
    let j = any_index(K::k());
    let mut k2 = k;
    k2.set_slice_mut(pos, n, value);
    let expect = if j >= pos && j < pos + n {
        ((value >> (62 - 2 * (j - pos))) & 3) as u8
    } else {
        k.get(j)
    };
    assert!(k2.get(j) == expect);
    assert!(k2.inv());
    let k3 = k.set_slice(pos, n, value);
    assert!(k3 == k2);
    kani::cover!(pos == 0 && n == core::cmp::min(32, K::k()));
    kani::cover!(pos + n == K::k() && pos > 0 && j >= pos && expect == 3);
    kani::cover!(j < pos && k.get(j) == 2);
    kani::cover!(n == 1 && (value << 2) != 0);
}

/// C10: shifting a base in from either side. C11-L1: INV preserved.
pub fn extend<K: SymK>() {
    let k = K::any_valid();
    let b = any_base();
    let j = any_index(K::k());
    let last = K::k() - 1;
    let r = k.extend_right(b);
    assert!(r.get(j) == if j == last { b } else { k.get(j + 1) });
    assert!(r.inv());
    let l = k.extend_left(b);
    assert!(l.get(j) == if j == 0 { b } else { k.get(j - 1) });
    assert!(l.inv());
    assert!(k.extend(b, Dir::Right) == r);
    assert!(k.extend(b, Dir::Left) == l);
    kani::cover!(k.get(0) == 3 && b == 1 && j == last);
    kani::cover!(k.get(last) == 3 && j == 0);
}

/// C10/C12: reverse complement is positional, an involution, keeps INV.
pub fn rc<K: SymK>() {
    let k = K::any_valid();
    let j = any_index(K::k());
    let r = k.rc();
    assert!(r.get(j) == 3 - k.get(K::k() - 1 - j));
    assert!(r.inv());
    assert!(r.rc() == k);
    kani::cover!(k.get(0) == 0 && j == K::k() - 1);
    kani::cover!(k.get(K::k() - 1) == 2 && j == 0);
}

/// C12: canonical form, flip flag, palindromes.
pub fn canon<K: SymK>() {
    let k = K::any_valid();
    let r = k.rc();
    let m = k.min_rc();
    let (m2, f) = k.min_rc_flip();
    // the smaller of the two, under the *string* order (raw integer order == lexicographic under INV, C11-L2)
    assert!(m.raw() == core::cmp::min(k.raw(), r.raw()));
    assert!(m.inv());
    assert!(m2 == m);
    assert!(if f { m2 == r } else { m2 == k });
    assert!(r.min_rc() == m);
    let (m3, f3) = r.min_rc_flip();
    assert!(m3 == m);
    if k != r {
        assert!(f3 != f);
    }
    assert!(k.is_palindrome() == (k.raw() == r.raw()));
    if K::k() % 2 == 1 {
        assert!(k != r);
        assert!(!k.is_palindrome());
    }
    kani::cover!(K::k() % 2 == 1 || k.is_palindrome());
    kani::cover!(f);
    kani::cover!(!f && k != r);
}

/// C10: rank conversion. `from_u64` for every K (leading A's when K > 32), `to_u64` for K <= 32.
pub fn rank<K: SymK>() {
    let r: u64 = kani::any();
    if K::k() < 32 {
        kani::assume(r >> (2 * K::k()) == 0);
    }
    let k = K::from_u64(r);
    let j = any_index(K::k());
    let from_right = K::k() - 1 - j;
    let expect = if from_right < 32 {
        ((r >> (2 * from_right)) & 3) as u8
    } else {
        0
    };
    assert!(k.get(j) == expect);
    assert!(k.inv());
    if K::k() <= 32 {
        assert!(k.to_u64() == r);
        let a = K::any_valid();
        let v = a.to_u64();
        assert!(v as u128 == a.raw());
        assert!(K::from_u64(v) == a);
    }
    kani::cover!(expect == 3);
    kani::cover!(j == 0 && r != 0);
    kani::cover!(r != 0 && j == K::k() - 1);
}

/// C10: construction from 0..3 bytes and from ASCII; longer input is truncated to K.
pub fn from_bytes<K: SymK, const N: usize>() {
    let bytes: [u8; N] = kani::any();
    let extra: usize = kani::any();
    kani::assume(extra <= N - K::k());
    let len = K::k() + extra;
    let j = any_index(K::k());
    kani::assume(bytes[j] < 4);
    // from_bytes requires every byte < 4 (documented encoding)
    let mut ok = true;
    let mut i = 0;
    while i < K::k() {
        ok &= bytes[i] < 4;
        i += 1;
    }
    kani::assume(ok);
    let k = K::from_bytes(&bytes[..len]);
    assert!(k.get(j) == bytes[j]);
    assert!(k.inv());
    kani::cover!(extra > 0 && bytes[j] == 3);
}

pub fn from_ascii<K: SymK, const N: usize>() {
    let bytes: [u8; N] = kani::any();
    let extra: usize = kani::any();
    kani::assume(extra <= N - K::k());
    let len = K::k() + extra;
    let j = any_index(K::k());
    let k = K::from_ascii(&bytes[..len]);
    let c = bytes[j];
    let expect = match c {
        b'A' | b'a' => 0,
        b'C' | b'c' => 1,
        b'G' | b'g' => 2,
        b'T' | b't' => 3,
        _ => 0,
    };
    assert!(k.get(j) == expect);
    assert!(k.inv());
    kani::cover!(c == b't');
    kani::cover!(c == b'N');
    kani::cover!(c > 127);
}

/// C10: Hamming distance == number of differing positions.
pub fn hamming<K: SymK>() {
    let a = K::any_valid();
    let b = K::any_valid();
    let mut n = 0u32;
    let mut i = 0;
    while i < K::k() {
        if a.rbase(i) != b.rbase(i) {
            n += 1;
        }
        i += 1;
    }
    assert!(a.hamming_dist(b) == n);
    assert!(b.hamming_dist(a) == n);
    kani::cover!(n == K::k() as u32);
    kani::cover!(n == 1);
}

/// C10: AT / GC counts.
pub fn counts<K: SymK>() {
    let a = K::any_valid();
    let mut at = 0u32;
    let mut gc = 0u32;
    let mut i = 0;
    while i < K::k() {
        let b = a.rbase(i);
        if b == 0 || b == 3 {
            at += 1;
        } else {
            gc += 1;
        }
        i += 1;
    }
    assert!(a.at_count() == at);
    assert!(a.gc_count() == gc);
    kani::cover!(at == K::k() as u32);
    kani::cover!(gc == K::k() as u32);
}

/// C10: text rendering.
pub fn to_string<K: SymK>() {
    let a = K::any_valid();
    let s = a.to_string();
    let j = any_index(K::k());
    let bytes = s.as_bytes();
    assert!(bytes.len() == K::k());
    let expect = match a.rbase(j) {
        0 => b'A',
        1 => b'C',
        2 => b'G',
        _ => b'T',
    };
    assert!(bytes[j] == expect);
    kani::cover!(expect == b'T');
    core::mem::forget(s);
}

/// C10: `get_extensions` lists exactly the extended k-mers of the set bits, in base order.
pub fn get_extensions<K: SymK>() {
    let a = K::any_valid();
    let e = any_exts();
    let d = any_dir();
    let v = a.get_extensions(e, d);
    let mut n = 0usize;
    let mut b = 0u8;
    while b < 4 {
        if e.has_ext(d, b) {
            assert!(n < v.len());
            assert!(v[n] == a.extend(b, d));
            n += 1;
        }
        b += 1;
    }
    assert!(v.len() == n);
    assert!(n == e.num_ext_dir(d) as usize);
    kani::cover!(n == 4);
    kani::cover!(n == 0);
    core::mem::forget(v);
}

/// C10: the base iterator yields exactly K bases in order.
pub fn mer_iter<K: SymK>() {
    let a = K::any_valid();
    let mut it = a.iter();
    let mut i = 0;
    while i < K::k() {
        let x = it.next();
        assert!(x == Some(a.rbase(i)));
        i += 1;
    }
    assert!(it.next().is_none());
    assert!(it.next().is_none());
}

/// C11-L2: equality and order are those of the string.
pub fn eq_ord<K: SymK>() {
    let a = K::any_valid();
    let b = K::any_valid();
    // reference: first differing position
    let mut ord = Ordering::Equal;
    let mut i = 0;
    while i < K::k() {
        if ord == Ordering::Equal {
            let x = a.rbase(i);
            let y = b.rbase(i);
            if x < y {
                ord = Ordering::Less;
            } else if x > y {
                ord = Ordering::Greater;
            }
        }
        i += 1;
    }
    assert!((a == b) == (ord == Ordering::Equal));
    assert!(a.cmp(&b) == ord);
    assert!(a.partial_cmp(&b) == Some(ord));
    assert!((a < b) == (ord == Ordering::Less));
    assert!((a >= b) == (ord != Ordering::Less));
    kani::cover!(ord == Ordering::Less);
    kani::cover!(ord == Ordering::Greater);
    kani::cover!(ord == Ordering::Equal);
}

/// Recording hasher: a fixed-array sink, so "what was hashed" is observable.
pub struct Rec {
    pub buf: [u8; 64],
    pub n: usize,
}
impl Rec {
    pub fn new() -> Rec {
        Rec {
            buf: [0; 64],
            n: 0,
        }
    }
}
impl Hasher for Rec {
    fn finish(&self) -> u64 {
        0
    }
    fn write(&mut self, bytes: &[u8]) {
        let mut i = 0;
        while i < bytes.len() {
            if self.n < 64 {
                self.buf[self.n] = bytes[i];
            }
            self.n += 1;
            i += 1;
        }
    }
}

/// C11-L3: what is fed to the hasher is a function of the string only — also for two values
/// that differ in bits outside the K used lanes (guards a non-canonical producer + derived Hash).
pub fn hash<K: SymK>() {
    let a = K::any_valid();
    let b = K::any_valid();
    let mut ha = Rec::new();
    let mut hb = Rec::new();
    a.hash(&mut ha);
    b.hash(&mut hb);
    let mut same = true;
    let mut i = 0;
    while i < K::k() {
        same &= a.rbase(i) == b.rbase(i);
        i += 1;
    }
    assert!(ha.n == hb.n && ha.n <= 64 && ha.n > 0);
    // "hash equal exactly when they spell the same string": the byte stream fed to the hasher is
    // the same for equal strings AND differs for different strings (otherwise no hasher, seed or
    // perfect-hash level could ever separate the two keys)
    let mut differ = false;
    let mut j = 0;
    while j < 64 {
        differ |= ha.buf[j] != hb.buf[j];
        j += 1;
    }
    assert!(same == !differ);
    kani::cover!(same);
    kani::cover!(!same);
}
