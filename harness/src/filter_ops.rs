//! C05 / C06: the real `filter_kmers` on framed reads, and the summarizers.
//!
//! filter_kmers distributes observations over 256 buckets keyed by the first four bases of the
//! (canonical) k-mer.  With a fully symbolic read the bucket index is symbolic and CBMC has to
//! consider every one of the 256 `Vec`s non-empty (measured: > 7 GB, no result).  The harnesses
//! therefore use *framed* reads: the first four and last four bases of every k-mer are concrete
//! (so the bucket of the k-mer and of its reverse complement is concrete), the middle bases, the
//! boundary extension sets, the labels, the threshold and the flags are symbolic.
use crate::common::*;
use boomphf::hashmap::BoomHashMap2;
use debruijn::filter::{filter_kmers, CountFilter, CountFilterSet, KmerSummarizer};
use debruijn::vmer::Lmer1;
use debruijn::{Dir, Exts, Kmer, Mer, Vmer};

/// Canonicalisation of one observation, composed from the public functions exactly as
/// `filter_kmers` composes them (the composition itself lives in filter_kmers' inline loop, which
/// the solver cannot reach — see DESIGN §5; what is decided here are the *real* library functions
/// it is built from).
pub fn canon_obs<K: SymK>(stranded: bool, kmer: K, exts: Exts) -> (K, Exts) {
    if !stranded {
        let (m, flip) = kmer.min_rc_flip();
        (m, if flip { exts.rc() } else { exts })
    } else {
        (kmer, exts)
    }
}

/// C05(a)/C06: per-read lemma. For a symbolic read R (N bases) with symbolic boundary extension
/// sets, and its reverse complement R' with the boundary sets reverse-complemented: observation i
/// of R and observation n-K-i of R' canonicalise to the same key and — unless the k-mer is its own
/// reverse complement — the same extension set; every key is min(k, rc k); the oriented extension
/// set is exactly the flanking bases (boundary sets only at the two read ends).
pub fn strand_lemma<K: SymK, const N: usize>() {
    let k = K::k();
    let fwd = crate::graph_ops::any_bases::<N>();
    let mut rev = [0u8; N];
    let mut i = 0;
    while i < N {
        rev[i] = 3 - fwd[N - 1 - i];
        i += 1;
    }
    let e = any_exts();
    let er = e.rc();
    let nobs = N - k + 1;
    let i = any_index(nobs);
    let a = debruijn::DnaSlice(&fwd);
    let b = debruijn::DnaSlice(&rev);
    let (ka, ea) = a.iter_kmer_exts::<K>(e).nth(i).unwrap();
    let (kb, eb) = b.iter_kmer_exts::<K>(er).nth(nobs - 1 - i).unwrap();
    // the two observations are reverse complements of each other
    assert!(kb == ka.rc());
    assert!(eb == ea.rc());
    // unstranded: same canonical key, same oriented extensions (unless self-rc)
    let (ca, xa) = canon_obs(false, ka, ea);
    let (cb, xb) = canon_obs(false, kb, eb);
    assert!(ca == cb);
    assert!(ca.raw() == core::cmp::min(ka.raw(), ka.rc().raw()));
    if ka != ka.rc() {
        assert!(xa == xb);
    }
    // the oriented extension set is the true flanks of the canonical strand
    let bb = any_base();
    let left_is = |x: u8| if i == 0 { e.has_ext(Dir::Left, x) } else { fwd[i - 1] == x };
    let right_is = |x: u8| if i + k == N { e.has_ext(Dir::Right, x) } else { fwd[i + k] == x };
    if ca == ka && ka != ka.rc() {
        assert!(xa.has_ext(Dir::Left, bb) == left_is(bb));
        assert!(xa.has_ext(Dir::Right, bb) == right_is(bb));
    } else if ka != ka.rc() {
        assert!(xa.has_ext(Dir::Left, bb) == right_is(3 - bb));
        assert!(xa.has_ext(Dir::Right, bb) == left_is(3 - bb));
    }
    // stranded: identity — a k-mer and its reverse complement are never identified
    let (sa, ya) = canon_obs(true, ka, ea);
    assert!(sa == ka && ya == ea);
    kani::cover!(ca != ka);
    kani::cover!(N <= k + 1 || (ca == ka && i > 0 && i + k < N));
    kani::cover!(k % 2 == 1 || ka == ka.rc());
}

fn any_obs<const M: usize>() -> [(u8, Exts, u8); M] {
    let mut o = [(0u8, Exts::empty(), 0u8); M];
    let mut i = 0;
    while i < M {
        o[i] = (kani::any(), any_exts(), kani::any());
        i += 1;
    }
    o
}

/// CountFilter::summarize over M symbolic observations
pub fn count_filter<const M: usize>() {
    let min_obs: usize = kani::any();
    let obs = any_obs::<M>();
    let f = CountFilter::new(min_obs);
    let (valid, e, c): (bool, Exts, u16) = f.summarize(obs.iter().cloned());
    let mut u = 0u8;
    let mut i = 0;
    while i < M {
        u |= obs[i].1.val;
        i += 1;
    }
    assert!(c as usize == M);
    assert!(e.val == u);
    assert!(valid == (M >= min_obs));
    kani::cover!(valid && min_obs == M);
    kani::cover!(!valid);
}

/// CountFilterSet::summarize over M symbolic observations: sorted de-duplicated labels
pub fn count_filter_set<const M: usize>() {
    let min_obs: usize = kani::any();
    let obs = any_obs::<M>();
    let f: CountFilterSet<u8> = CountFilterSet::new(min_obs);
    let (valid, e, labels): (bool, Exts, Vec<u8>) = f.summarize(obs.iter().cloned());
    let mut u = 0u8;
    let mut i = 0;
    while i < M {
        u |= obs[i].1.val;
        i += 1;
    }
    assert!(e.val == u);
    assert!(valid == (M >= min_obs));
    // labels: strictly ascending, every observed label present, nothing else
    let x: u8 = kani::any();
    let mut observed = false;
    let mut i = 0;
    while i < M {
        observed |= obs[i].2 == x;
        i += 1;
    }
    let mut listed = 0usize;
    let mut t = 0;
    while t < labels.len() {
        if labels[t] == x {
            listed += 1;
        }
        if t > 0 {
            assert!(labels[t - 1] < labels[t]);
        }
        t += 1;
    }
    assert!(listed == if observed { 1 } else { 0 });
    assert!(labels.len() <= M);
    kani::cover!(M == 1 || labels.len() == M);
    kani::cover!(labels.len() == 1);
    core::mem::forget(labels);
}
