//! C20: GFA and JSON export of small graphs. The *link structure* is the subject: which `L`
//! lines / JSON link objects are written for which adjacency, with which orientation, and whether
//! the JSON punctuation is well formed. (Sequence text rendering is decided under C14/C15; the S
//! line text is still compared base by base here.)
//!
//! The exporters write into a *streaming oracle sink*: it never stores the text (a byte array
//! written at data-dependent offsets made CBMC run past 17 GB) but keeps only the current line /
//! object in a small buffer, and, whenever a line or object is complete, checks it against the
//! reference adjacency matrix and counts it. At the end the harness compares the counts with the
//! reference: every adjacency listed, none twice, no other.
use crate::common::*;
use crate::step_ops::{any_graph, G};
use debruijn::graph::DebruijnGraph;
use debruijn::{Dir, Exts, Kmer, Mer};
use std::fmt;
use std::io;

fn nib(e: Exts, d: Dir) -> u8 {
    if is_left(d) {
        e.val & 0xf
    } else {
        e.val >> 4
    }
}
fn side(i: usize) -> Dir {
    if i & 1 == 0 {
        Dir::Left
    } else {
        Dir::Right
    }
}

/// Reference adjacency matrix over node sides (index 2*node + (0=left,1=right)):
/// a[x][y] <=> side x has an extension bit that resolves to side y.
fn adjacency<K: SymK, const NN: usize, const L: usize>(g: &G<K, NN, L>) -> [[bool; 4]; 4] {
    let mut a = [[false; 4]; 4];
    let mut x = 0;
    while x < 2 * NN {
        let (u, su) = (x / 2, side(x));
        let tk = g.term(u, su);
        let mut b = 0u8;
        while b < 4 {
            if (nib(g.exts[u], su) >> b) & 1 == 1 {
                if let Some((id, sd, _)) = g.ref_link(tk.extend(b, su), su) {
                    a[x][2 * id + if is_left(sd) { 0 } else { 1 }] = true;
                }
            }
            b += 1;
        }
        x += 1;
    }
    a
}

fn single_pal<K: SymK, const NN: usize, const L: usize>(g: &G<K, NN, L>, u: usize) -> bool {
    let t = g.term(u, Dir::Left);
    g.lens[u] == K::k() && !g.stranded && t.raw() == t.rc().raw()
}

macro_rules! io_write_via_feed {
    ($t:ident, $a:ident) => {
        struct $a<'a, const NN: usize, const L: usize>(&'a mut $t<NN, L>);
        impl<const NN: usize, const L: usize> fmt::Write for $a<'_, NN, L> {
            fn write_str(&mut self, s: &str) -> fmt::Result {
                self.0.feed(s.as_bytes());
                Ok(())
            }
        }
        impl<const NN: usize, const L: usize> io::Write for $t<NN, L> {
            fn write(&mut self, b: &[u8]) -> io::Result<usize> {
                self.feed(b);
                Ok(b.len())
            }
            fn write_all(&mut self, b: &[u8]) -> io::Result<()> {
                self.feed(b);
                Ok(())
            }
            fn flush(&mut self) -> io::Result<()> {
                Ok(())
            }
            /// renders through `core::fmt::write` directly (std's default goes through an adapter
            /// carrying an `io::Error`, whose drop glue is costly in CBMC)
            fn write_fmt(&mut self, args: fmt::Arguments<'_>) -> io::Result<()> {
                let _ = fmt::write(&mut $a(self), args);
                Ok(())
            }
        }
    };
}

// ------------------------------------------------------------------------------------ GFA
const LINE: usize = 24;

/// Streaming oracle for GFA text. Holds the reference (adjacency matrix, sequences); every
/// completed line is parsed and checked, and counted per adjacency / per node.
pub struct GfaSink<const NN: usize, const L: usize> {
    cur: [u8; LINE],
    col: usize,
    lines: usize,
    a: [[bool; 4]; 4],
    seqs: [[u8; L]; NN],
    lens: [usize; NN],
    k1: u8,
    /// times adjacency {x,y} was listed, stored at [min][max]
    pub links: [[u8; 4]; 4],
    pub s_lines: [u8; NN],
}
impl<const NN: usize, const L: usize> GfaSink<NN, L> {
    fn feed(&mut self, b: &[u8]) {
        if b.len() > 12 {
            // the only long piece is the header literal (with its newline); handled without a
            // loop so that the global unwinding bound can stay small
            let h = b"H\tVN:Z:debruijn-rs\n";
            assert!(b.len() == 19 && self.lines == 0 && self.col == 0, "unexpected long piece of GFA text");
            assert!(
                b[0] == h[0] && b[1] == h[1] && b[2] == h[2] && b[3] == h[3] && b[4] == h[4] && b[5] == h[5]
                    && b[6] == h[6] && b[7] == h[7] && b[8] == h[8] && b[9] == h[9] && b[10] == h[10]
                    && b[11] == h[11] && b[12] == h[12] && b[13] == h[13] && b[14] == h[14] && b[15] == h[15]
                    && b[16] == h[16] && b[17] == h[17] && b[18] == h[18],
                "GFA header line"
            );
            self.lines = 1;
            return;
        }
        // loop-free (pieces are short): keeps the global unwinding bound independent of the text.
        // Every newline the exporter writes is the last byte of a piece: one commit per piece.
        let l = b.len();
        assert!(l <= 12);
        let ends_nl = l > 0 && b[l - 1] == b'\n';
        let dl = if ends_nl { l - 1 } else { l };
        self.step(b, dl, 0);
        self.step(b, dl, 1);
        self.step(b, dl, 2);
        self.step(b, dl, 3);
        self.step(b, dl, 4);
        self.step(b, dl, 5);
        self.step(b, dl, 6);
        self.step(b, dl, 7);
        self.step(b, dl, 8);
        self.step(b, dl, 9);
        self.step(b, dl, 10);
        if ends_nl {
            self.commit();
            self.col = 0;
        }
    }
    #[inline(always)]
    fn step(&mut self, b: &[u8], dl: usize, i: usize) {
        if i < dl {
            let c = b[i];
            assert!(c != b'\n', "a newline inside a piece of GFA text");
            assert!(self.col < LINE, "a GFA line longer than the harness bound");
            self.cur[self.col] = c;
            self.col += 1;
        }
    }
    fn commit(&mut self) {
        let l = &self.cur;
        if self.lines == 0 {
            assert!(false, "GFA text does not start with the header line");
        } else if l[0] == b'S' {
            // "S\t<id>\t<sequence>"
            assert!(l[1] == b'\t' && l[3] == b'\t', "S line format");
            let u = (l[2] - b'0') as usize;
            assert!(u < NN, "S line names a node of the graph");
            assert!(self.col == 4 + self.lens[u], "S line carries the whole node sequence");
            let mut j = 0;
            while j < L {
                if j < self.lens[u] {
                    assert!(l[4 + j] == b"ACGT"[self.seqs[u][j] as usize], "S line sequence");
                }
                j += 1;
            }
            self.s_lines[u] += 1;
        } else {
            // "L\t<u>\t<+|->\t<v>\t<+|->\t<K-1>M"
            assert!(self.col == 12 && l[0] == b'L', "L line format");
            assert!(l[1] == b'\t' && l[3] == b'\t' && l[5] == b'\t' && l[7] == b'\t' && l[9] == b'\t', "L line format");
            assert!(l[10] == b'0' + self.k1 && l[11] == b'M', "L line overlap is K-1");
            let u = (l[2] - b'0') as usize;
            let v = (l[6] - b'0') as usize;
            assert!(u < NN && v < NN, "L line names nodes of the graph");
            assert!((l[4] == b'+' || l[4] == b'-') && (l[8] == b'+' || l[8] == b'-'), "L line orientation signs");
            // leave u by its right side iff '+'; enter v by its left side iff '+'
            let x = 2 * u + if l[4] == b'+' { 1 } else { 0 };
            let y = 2 * v + if l[8] == b'+' { 0 } else { 1 };
            assert!(self.a[x][y], "GFA lists a link that is not an adjacency of the graph (wrong node, side or orientation)");
            let (lo, hi) = if x <= y { (x, y) } else { (y, x) };
            self.links[lo][hi] += 1;
        }
        self.lines += 1;
    }
}
io_write_via_feed!(GfaSink, GfaFmt);

/// C20 (GFA) on an NN-node graph (NN <= 2, ids are single digits).
pub fn gfa<K: SymK, const NN: usize, const L: usize>(lens: [usize; NN]) {
    let g = any_graph::<K, NN, L>(lens);
    g.assume_distinct_ends();
    let a = adjacency(&g);
    // graph validity: extensions are reciprocal (u reaches v <=> v reaches u through the facing side)
    let mut any_pal = false;
    let mut x = 0;
    while x < 2 * NN {
        let mut y = 0;
        while y < 2 * NN {
            kani::assume(a[x][y] == a[y][x]);
            y += 1;
        }
        any_pal |= single_pal(&g, x / 2);
        x += 1;
    }
    let mut w = GfaSink::<NN, L> {
        cur: [0; LINE],
        col: 0,
        lines: 0,
        a,
        seqs: g.seqs,
        lens,
        k1: K::k() as u8 - 1,
        links: [[0; 4]; 4],
        s_lines: [0; NN],
    };
    let r = g.g.write_gfa(&mut w);
    assert!(r.is_ok());
    assert!(w.col == 0, "output ends with a newline");
    let mut u = 0;
    while u < NN {
        assert!(w.s_lines[u] == 1, "every node is listed exactly once");
        u += 1;
    }
    // one arbitrary pair of node sides
    let x = any_index(2 * NN);
    let y = any_index(2 * NN);
    kani::assume(x <= y);
    if a[x][y] {
        assert!(w.links[x][y] >= 1, "GFA omits an adjacency of the graph");
        // both sides of a palindromic single-k-mer node are the same k-mer and may each report it
        if !single_pal(&g, x / 2) && !single_pal(&g, y / 2) {
            assert!(w.links[x][y] == 1, "GFA lists an adjacency more than once");
        }
    } else {
        assert!(w.links[x][y] == 0);
    }
    kani::cover!(!any_pal && a[0][0]);
    kani::cover!(!any_pal && a[1][1]);
    kani::cover!(!any_pal && a[0][1]);
    kani::cover!(K::k() % 2 == 1 || (any_pal && a[x][y])); // palindromes exist for even K only
    kani::cover!(NN < 2 || (a[1][2] && !any_pal));
    kani::cover!(NN < 2 || (a[1][3] && !any_pal));
    core::mem::forget(g);
}

// ------------------------------------------------------------------------------------ JSON
const T_START: u8 = 0;
const T_OPEN: u8 = 1;
const T_CLOSE: u8 = 2;
const T_COMMA: u8 = 3;
const T_COLON: u8 = 4;
const T_STR: u8 = 5;
const T_LIT: u8 = 6;

/// Streaming structural JSON validator + link-object oracle. Token rules enforced: a value
/// (string, literal, `{`, `[`) may only follow `[`/`{`/`,`/`:` or the start; `,` only follows a
/// value or a close; `:` only a string; a close never follows `,`; brackets balance. (No string
/// escapes occur in this output.) Link objects (inside the 2nd top-level array) are decoded from
/// their 2nd/4th/6th strings and checked against the reference right-going adjacencies.
pub struct JsonSink<const NN: usize, const L: usize> {
    in_str: bool,
    last: u8,
    depth: u8,
    arrays: u8, // top-level arrays opened so far: 1 = "nodes", 2 = "links"
    strs: u8,   // strings completed in the current depth-3 object
    first: u8,  // first byte of the string being read
    slen: u8,
    f1: u8, // first byte of the 2nd / 4th / 6th string of the current object
    f2: u8,
    f3: u8,
    a: [[bool; 4]; 4],
    pub nodes: [u8; NN],
    /// [source][target][0 = arrives on the left side, 1 = right]
    pub links: [[[u8; 2]; NN]; NN],
}
impl<const NN: usize, const L: usize> JsonSink<NN, L> {
    fn value_may_start(&self) {
        assert!(
            self.last == T_START || self.last == T_OPEN || self.last == T_COMMA || self.last == T_COLON,
            "malformed JSON: a value follows a value or a closing bracket without a comma"
        );
    }
    fn feed(&mut self, b: &[u8]) {
        // loop-free (pieces are at most 13 bytes): keeps the global unwinding bound small
        assert!(b.len() <= 16);
        self.step(b, 0);
        self.step(b, 1);
        self.step(b, 2);
        self.step(b, 3);
        self.step(b, 4);
        self.step(b, 5);
        self.step(b, 6);
        self.step(b, 7);
        self.step(b, 8);
        self.step(b, 9);
        self.step(b, 10);
        self.step(b, 11);
        self.step(b, 12);
        self.step(b, 13);
        self.step(b, 14);
        self.step(b, 15);
    }
    #[inline(always)]
    fn step(&mut self, b: &[u8], i: usize) {
        if i < b.len() {
            self.byte(b[i]);
        }
    }
    fn byte(&mut self, c: u8) {
        if self.in_str {
            if c == b'"' {
                self.in_str = false;
                self.last = T_STR;
                if self.depth == 3 {
                    self.strs += 1;
                    if self.strs == 2 {
                        self.f1 = self.first;
                    } else if self.strs == 4 {
                        self.f2 = self.first;
                    } else if self.strs == 6 {
                        self.f3 = self.first;
                    }
                }
            } else {
                if self.slen == 0 {
                    self.first = c;
                }
                if self.slen < 200 {
                    self.slen += 1;
                }
            }
            return;
        }
        if c == b'"' {
            self.value_may_start();
            self.in_str = true;
            self.slen = 0;
            self.first = 0;
        } else if c == b'{' || c == b'[' {
            self.value_may_start();
            self.depth += 1;
            if c == b'[' && self.depth == 2 {
                self.arrays += 1;
            }
            if c == b'{' && self.depth == 3 {
                self.strs = 0;
            }
            self.last = T_OPEN;
        } else if c == b'}' || c == b']' {
            assert!(self.last != T_COMMA, "malformed JSON: a comma directly before a closing bracket");
            assert!(self.last != T_COLON && self.depth > 0, "malformed JSON: unbalanced bracket");
            if c == b'}' && self.depth == 3 {
                self.object_done();
            }
            self.depth -= 1;
            self.last = T_CLOSE;
        } else if c == b',' {
            assert!(
                self.last == T_STR || self.last == T_LIT || self.last == T_CLOSE,
                "malformed JSON: a comma that does not follow a value"
            );
            self.last = T_COMMA;
        } else if c == b':' {
            assert!(self.last == T_STR, "malformed JSON: a colon that does not follow a key");
            self.last = T_COLON;
        } else if c == b' ' || c == b'\n' {
        } else {
            // a literal (number, null): starts like a value, continues as itself
            if self.last != T_LIT {
                self.value_may_start();
            }
            self.last = T_LIT;
        }
    }
    fn object_done(&mut self) {
        if self.arrays == 1 {
            // node object: {"id":"<i>", ...}: 2nd string is the id
            let u = (self.f1 - b'0') as usize;
            assert!(self.strs >= 2 && u < NN, "node object names a node of the graph");
            self.nodes[u] += 1;
        } else {
            // link object: {"source":"u","target":"v","D":"L|R"}
            assert!(self.arrays == 2 && self.strs == 6, "link object has source, target and D");
            let u = (self.f1 - b'0') as usize;
            let v = (self.f2 - b'0') as usize;
            assert!(u < NN && v < NN, "link object names nodes of the graph");
            assert!(self.f3 == b'L' || self.f3 == b'R', "link object arrival side");
            let s = if self.f3 == b'L' { 0 } else { 1 };
            assert!(self.a[2 * u + 1][2 * v + s], "JSON lists a link that is not a right-going adjacency of the graph");
            self.links[u][v][s] += 1;
        }
    }
}
io_write_via_feed!(JsonSink, JsonFmt);

/// C20 (JSON) on an NN-node graph (NN <= 2): structurally well-formed, every node listed once,
/// the link objects are exactly the right-going adjacencies, each once.
pub fn json<K: SymK, const NN: usize, const L: usize>(lens: [usize; NN]) {
    let g = any_graph::<K, NN, L>(lens);
    g.assume_distinct_ends();
    let a = adjacency(&g);
    let mut w = JsonSink::<NN, L> {
        in_str: false,
        last: T_START,
        depth: 0,
        arrays: 0,
        strs: 0,
        first: 0,
        slen: 0,
        f1: 0,
        f2: 0,
        f3: 0,
        a,
        nodes: [0; NN],
        links: [[[0; 2]; NN]; NN],
    };
    g.g.to_json_rest(|_d: &u8| serde_json::Value::Null, &mut w, None);
    assert!(w.depth == 0 && !w.in_str && w.last == T_CLOSE && w.arrays == 2, "JSON document is complete");
    let u = any_index(NN);
    let v = any_index(NN);
    let s = any_index(2);
    assert!(w.nodes[u] == 1, "every node is listed exactly once");
    assert!(w.links[u][v][s] == a[2 * u + 1][2 * v + s] as u8, "every right-going link is listed exactly once");
    kani::cover!(a[1][0] || a[1][1]);
    // the last node has no right-going link, an earlier one has
    kani::cover!(NN < 2 || ((a[1][2] || a[1][3]) && !(a[3][0] || a[3][1] || a[3][2] || a[3][3])));
    // several right-going links from one node
    kani::cover!(NN < 2 || (a[1][0] as u8 + a[1][1] as u8 + a[1][2] as u8 + a[1][3] as u8) >= 2);
    // link-free
    kani::cover!(!(a[1][0] || a[1][1] || a[1][2] || a[1][3] || a[3][0] || a[3][1] || a[3][2] || a[3][3]));
    core::mem::forget(g);
}
