//! C20: GFA and JSON export of small graphs into a fixed-array sink. The *link structure* is the
//! subject: which `L` lines / JSON link objects are written for which adjacency, and whether the
//! JSON punctuation is well formed. (Sequence text rendering is decided under C14/C15.)
//!
//! The oracle never scans the output with a data-dependent loop (such a loop would force a large
//! global unwinding bound onto every loop of the code under test). Instead the sink records where
//! each line starts, and the checks use *symbolic line / object indices*:
//!   (1) every line is well formed and denotes an adjacency of the reference graph,
//!   (2) two different lines never denote the same adjacency,
//!   (3) the number of lines equals the number of reference adjacencies,
//! which together say that the export lists exactly the adjacencies, each once.
use crate::common::*;
use crate::step_ops::{any_graph, G};
use debruijn::graph::DebruijnGraph;
use debruijn::{Dir, Exts, Kmer, Mer};
use std::fmt;
use std::io;

pub const CAP: usize = 512;
pub const MAXL: usize = 32;

/// Byte sink: a fixed array, no heap; remembers where every '\n'-terminated line starts.
/// `write_fmt` renders through `core::fmt::write` directly (std's default goes through an adapter
/// carrying an `io::Error`, whose drop glue is costly in CBMC).
pub struct IoSink {
    pub buf: [u8; CAP],
    pub n: usize,
    pub starts: [usize; MAXL],
    pub nl: usize,
}
impl IoSink {
    pub fn new() -> Self {
        let mut s = IoSink {
            buf: [0; CAP],
            n: 0,
            starts: [0; MAXL],
            nl: 0,
        };
        s.starts[0] = 0;
        s
    }
    fn put(&mut self, b: &[u8]) {
        let l = b.len();
        if l == 0 {
            return;
        }
        assert!(self.n + l <= CAP, "sink capacity (harness bound) exceeded");
        self.buf[self.n..self.n + l].copy_from_slice(b);
        self.n += l;
        // every newline the exporters write is the last byte of a piece
        if b[l - 1] == b'\n' {
            assert!(self.nl + 1 < MAXL, "sink line capacity (harness bound) exceeded");
            self.nl += 1;
            self.starts[self.nl] = self.n;
        }
    }
    /// start of line i and one-past-its-newline
    pub fn line(&self, i: usize) -> (usize, usize) {
        (self.starts[i], self.starts[i + 1])
    }
}
struct FmtAdapter<'a>(&'a mut IoSink);
impl fmt::Write for FmtAdapter<'_> {
    fn write_str(&mut self, s: &str) -> fmt::Result {
        self.0.put(s.as_bytes());
        Ok(())
    }
}
impl io::Write for IoSink {
    fn write(&mut self, b: &[u8]) -> io::Result<usize> {
        self.put(b);
        Ok(b.len())
    }
    fn write_all(&mut self, b: &[u8]) -> io::Result<()> {
        self.put(b);
        Ok(())
    }
    fn flush(&mut self) -> io::Result<()> {
        Ok(())
    }
    fn write_fmt(&mut self, args: fmt::Arguments<'_>) -> io::Result<()> {
        let _ = fmt::write(&mut FmtAdapter(self), args);
        Ok(())
    }
}

fn nib(e: Exts, d: Dir) -> u8 {
    if is_left(d) {
        e.val & 0xf
    } else {
        e.val >> 4
    }
}
fn side(i: usize) -> Dir {
    if i & 1 == 0 {
        Dir::Left
    } else {
        Dir::Right
    }
}

/// Reference adjacency matrix over node sides (index 2*node + (0=left,1=right)):
/// a[x][y] <=> side x has an extension bit that resolves to side y.
fn adjacency<K: SymK, const NN: usize, const L: usize>(g: &G<K, NN, L>) -> [[bool; 4]; 4] {
    let mut a = [[false; 4]; 4];
    let mut x = 0;
    while x < 2 * NN {
        let (u, su) = (x / 2, side(x));
        let tk = g.term(u, su);
        let mut b = 0u8;
        while b < 4 {
            if (nib(g.exts[u], su) >> b) & 1 == 1 {
                if let Some((id, sd, _)) = g.ref_link(tk.extend(b, su), su) {
                    a[x][2 * id + if is_left(sd) { 0 } else { 1 }] = true;
                }
            }
            b += 1;
        }
        x += 1;
    }
    a
}

fn single_pal<K: SymK, const NN: usize, const L: usize>(g: &G<K, NN, L>, u: usize) -> bool {
    let t = g.term(u, Dir::Left);
    g.lens[u] == K::k() && !g.stranded && t.raw() == t.rc().raw()
}

/// C20 (GFA) on an NN-node graph (NN <= 2, ids are single digits).
pub fn gfa<K: SymK, const NN: usize, const L: usize>(lens: [usize; NN]) {
    let g = any_graph::<K, NN, L>(lens);
    g.assume_distinct_ends();
    let a = adjacency(&g);
    // graph validity: extensions are reciprocal (u reaches v <=> v reaches u through the facing side)
    let mut x = 0;
    while x < 2 * NN {
        let mut y = 0;
        while y < 2 * NN {
            kani::assume(a[x][y] == a[y][x]);
            y += 1;
        }
        x += 1;
    }
    // number of adjacencies = unordered pairs of node sides
    let mut n_adj = 0usize;
    let mut any_pal = false;
    let mut x = 0;
    while x < 2 * NN {
        let mut y = x;
        while y < 2 * NN {
            if a[x][y] {
                n_adj += 1;
            }
            y += 1;
        }
        any_pal |= single_pal(&g, x / 2);
        x += 1;
    }
    let k = K::k();

    let mut w = IoSink::new();
    let r = g.g.write_gfa(&mut w);
    assert!(r.is_ok());
    assert!(w.starts[w.nl] == w.n); // output ends with a newline

    // ---- line 0: the header
    let h = b"H\tVN:Z:debruijn-rs\n";
    assert!(w.nl >= 1 + NN && w.line(0) == (0, 19));
    assert!(
        w.buf[0] == h[0] && w.buf[1] == h[1] && w.buf[2] == h[2] && w.buf[3] == h[3] && w.buf[4] == h[4]
            && w.buf[5] == h[5] && w.buf[6] == h[6] && w.buf[7] == h[7] && w.buf[8] == h[8] && w.buf[9] == h[9]
            && w.buf[10] == h[10] && w.buf[11] == h[11] && w.buf[12] == h[12] && w.buf[13] == h[13]
            && w.buf[14] == h[14] && w.buf[15] == h[15] && w.buf[16] == h[16] && w.buf[17] == h[17] && w.buf[18] == h[18]
    );

    // ---- one arbitrary line after the header: S or L, well formed
    let li = any_index(MAXL - 1);
    kani::assume(li >= 1 && li < w.nl);
    let (p, q) = w.line(li);
    let is_s = w.buf[p] == b'S';
    // classify an L line: -> (adjacency index pair) ; leave by the right side iff '+', enter by the left side iff '+'
    let parse_l = |p: usize, q: usize| -> (usize, usize) {
        assert!(q - p == 13);
        assert!(w.buf[p] == b'L' && w.buf[p + 1] == b'\t' && w.buf[p + 3] == b'\t' && w.buf[p + 5] == b'\t');
        assert!(w.buf[p + 7] == b'\t' && w.buf[p + 9] == b'\t' && w.buf[p + 10] == b'0' + (k as u8 - 1));
        assert!(w.buf[p + 11] == b'M' && w.buf[p + 12] == b'\n');
        let u = (w.buf[p + 2] - b'0') as usize;
        let v = (w.buf[p + 6] - b'0') as usize;
        assert!(u < NN && v < NN);
        assert!(w.buf[p + 4] == b'+' || w.buf[p + 4] == b'-');
        assert!(w.buf[p + 8] == b'+' || w.buf[p + 8] == b'-');
        let x = 2 * u + if w.buf[p + 4] == b'+' { 1 } else { 0 };
        let y = 2 * v + if w.buf[p + 8] == b'+' { 0 } else { 1 };
        (x, y)
    };
    if is_s {
        // "S\t<id>\t<sequence>\n"
        let u = (w.buf[p + 2] - b'0') as usize;
        assert!(w.buf[p + 1] == b'\t' && u < NN && w.buf[p + 3] == b'\t');
        assert!(q - p == 4 + lens[u] + 1);
        let j = any_index(L);
        kani::assume(j < lens[u]);
        assert!(w.buf[p + 4 + j] == b"ACGT"[g.seqs[u][j] as usize]);
    } else {
        let (x, y) = parse_l(p, q);
        // (1) no link that is not an adjacency of the graph
        assert!(a[x][y]);
    }
    // every node has its S line: exactly NN of the lines are S lines -- S lines are the ones that
    // are not 13 bytes long or do not start with 'L'; count them through the line total:
    // (3) #L lines == #adjacencies   (unless a palindromic single-k-mer node is involved)
    let n_lines = w.nl - 1; // without the header
    // node i's S line is the first line after the previous node's block; locate node 0's
    assert!(w.buf[w.starts[1]] == b'S' && w.buf[w.starts[1] + 2] == b'0');
    // (2) two different L lines never denote the same adjacency
    let l2 = any_index(MAXL - 1);
    kani::assume(l2 >= 1 && l2 < w.nl && l2 != li);
    let (p2, q2) = w.line(l2);
    let is_s2 = w.buf[p2] == b'S';
    if is_s && is_s2 {
        // two S lines are for different nodes
        assert!(w.buf[p + 2] != w.buf[p2 + 2]);
    }
    if !any_pal {
        if !is_s && !is_s2 {
            let (x, y) = parse_l(p, q);
            let (x2, y2) = parse_l(p2, q2);
            assert!(!((x == x2 && y == y2) || (x == y2 && y == x2)));
        }
        // with at most NN S lines (distinct node ids) and no duplicate L line, the totals force
        // exactly NN S lines and every adjacency listed
        assert!(n_lines == NN + n_adj);
    } else {
        // both sides of a palindromic single-k-mer node are the same k-mer: each adjacency may
        // be reported from either side, but not fewer lines than adjacencies, none if none
        assert!(n_lines >= NN && (n_lines > NN) == (n_adj > 0));
    }
    kani::cover!(!any_pal && a[0][0]);
    kani::cover!(!any_pal && a[1][1]);
    kani::cover!(!any_pal && a[0][1]);
    kani::cover!(!any_pal && n_adj == 0);
    kani::cover!(any_pal && n_adj > 0);
    core::mem::forget(g);
}

/// C20 (JSON) on an NN-node graph (NN <= 2): the output is the fixed line grammar
///   `{` / `"nodes": [` / one line per node / `],` / `"links": [` / one line per node that has
///   right-going links / `]` / `` / `}`
/// and is well-formed JSON exactly when every node line but the last and every link line but the
/// last ends with a comma, and objects inside a link line are comma-separated. The link objects
/// are exactly the right-going adjacencies of the reference graph, each once.
pub fn json<K: SymK, const NN: usize, const L: usize>(lens: [usize; NN]) {
    let g = any_graph::<K, NN, L>(lens);
    g.assume_distinct_ends();
    let a = adjacency(&g);
    let mut n_right = 0usize;
    let mut u = 0;
    while u < NN {
        let mut y = 0;
        while y < 2 * NN {
            if a[2 * u + 1][y] {
                n_right += 1;
            }
            y += 1;
        }
        u += 1;
    }

    let mut w = IoSink::new();
    g.g.to_json_rest(|_d: &u8| serde_json::Value::Null, &mut w, None);
    assert!(w.starts[w.nl] == w.n);
    let at = |i: usize| w.buf[i];

    // ---- fixed frame
    assert!(w.nl >= NN + 7);
    let nlink = w.nl - (NN + 7);
    assert!(nlink <= NN);
    let base = NN + 4;
    assert!(w.line(0) == (0, 2) && at(0) == b'{');
    let (p, q) = w.line(1);
    assert!(q - p == 11 && at(p) == b'"' && at(p + 1) == b'n' && at(p + 8) == b' ' && at(p + 9) == b'[');
    let (p, q) = w.line(NN + 2);
    assert!(q - p == 3 && at(p) == b']' && at(p + 1) == b',');
    let (p, q) = w.line(NN + 3);
    assert!(q - p == 11 && at(p) == b'"' && at(p + 1) == b'l' && at(p + 8) == b' ' && at(p + 9) == b'[');
    let (p, q) = w.line(base + nlink);
    assert!(q - p == 2 && at(p) == b']');
    let (p, q) = w.line(base + nlink + 1);
    assert!(q - p == 1);
    let (p, q) = w.line(base + nlink + 2);
    assert!(q - p == 2 && at(p) == b'}');

    // ---- one arbitrary node line: `{"id":"<i>",...,"Se":"<bases>"}` + `,` iff not the last node
    let i = any_index(NN);
    let (p, q) = w.line(2 + i);
    let comma = if i + 1 < NN { 1 } else { 0 };
    assert!(q - p == 33 + lens[i] + comma + 1);
    assert!(at(p) == b'{' && at(p + 1) == b'"' && at(p + 2) == b'i' && at(p + 3) == b'd' && at(p + 4) == b'"');
    assert!(at(p + 5) == b':' && at(p + 6) == b'"' && at(p + 7) == b'0' + i as u8 && at(p + 8) == b'"');
    assert!(at(p + 9) == b',' && at(p + 10) == b'"' && at(p + 11) == b'L' && at(p + 12) == b'"' && at(p + 13) == b':');
    assert!(at(p + 14) == b'0' + lens[i] as u8 && at(p + 15) == b',');
    let e = q - 1 - comma; // one past the closing brace
    assert!(at(e - 1) == b'}' && at(e - 2) == b'"');
    assert!(comma == 0 || at(e) == b',');
    let j = any_index(L);
    kani::assume(j < lens[i]);
    assert!(at(e - 2 - lens[i] + j) == b"ACGT"[g.seqs[i][j] as usize]);

    // ---- link lines: length 36*m + c, c = trailing comma, present iff not the last link line
    let m_of = |t: usize| -> (usize, usize, usize) {
        let (p, q) = w.line(base + t);
        let len = q - p - 1; // without the newline
        (p, len / 36, len % 36)
    };
    let mut total = 0usize;
    let mut t = 0;
    while t < NN {
        if t < nlink {
            let (_p, m, c) = m_of(t);
            assert!(m >= 1 && c <= 1);
            // well-formedness: a comma separates consecutive link lines and none trails the last
            assert!((c == 1) == (t + 1 < nlink));
            total += m;
        }
        t += 1;
    }
    // (3) as many link objects as right-going adjacencies
    assert!(total == n_right);

    // (1) one arbitrary link object: template, denotes a right-going adjacency, separators
    let parse = |t: usize, j: usize| -> (usize, usize, usize) {
        let (p, m, c) = m_of(t);
        let o = p + 36 * j;
        assert!(at(o) == b'{' && at(o + 1) == b'"' && at(o + 2) == b's' && at(o + 9) == b'"' && at(o + 10) == b':');
        assert!(at(o + 11) == b'"' && at(o + 13) == b'"' && at(o + 14) == b',' && at(o + 15) == b'"' && at(o + 16) == b't');
        assert!(at(o + 22) == b'"' && at(o + 23) == b':' && at(o + 24) == b'"' && at(o + 26) == b'"' && at(o + 27) == b',');
        assert!(at(o + 28) == b'"' && at(o + 29) == b'D' && at(o + 30) == b'"' && at(o + 31) == b':' && at(o + 32) == b'"');
        assert!(at(o + 34) == b'"' && at(o + 35) == b'}');
        // separator after the object: ',' between objects and for the trailing comma, else newline
        if j + 1 < m || c == 1 {
            assert!(at(o + 36) == b',');
        } else {
            assert!(at(o + 36) == b'\n');
        }
        let u = (at(o + 12) - b'0') as usize;
        let v = (at(o + 25) - b'0') as usize;
        assert!(u < NN && v < NN);
        assert!(at(o + 33) == b'L' || at(o + 33) == b'R');
        (u, v, if at(o + 33) == b'L' { 0 } else { 1 })
    };
    if nlink > 0 {
        let t1 = any_index(NN);
        kani::assume(t1 < nlink);
        let (_p, m1, _c) = m_of(t1);
        let j1 = any_index(4);
        kani::assume(j1 < m1);
        assert!(m1 <= 4);
        let (u1, v1, s1) = parse(t1, j1);
        assert!(a[2 * u1 + 1][2 * v1 + s1]);
        // (2) no right-going link is listed twice
        let t2 = any_index(NN);
        kani::assume(t2 < nlink);
        let (_p, m2, _c) = m_of(t2);
        let j2 = any_index(4);
        kani::assume(j2 < m2 && (t2 != t1 || j2 != j1));
        let (u2, v2, s2) = parse(t2, j2);
        assert!(!(u1 == u2 && v1 == v2 && s1 == s2));
    }
    kani::cover!(nlink == NN);
    kani::cover!(nlink == 0);
    kani::cover!(NN < 2 || (nlink == 1 && a[1][0])); // node 0 has a right-going link, the last node has none
    kani::cover!(total >= 2);
    core::mem::forget(g);
}

/// probe: cost of one formatted line with concrete arguments
pub fn probe_fmt_line() {
    use std::io::Write;
    let mut w = IoSink::new();
    let id: usize = 0;
    let t: usize = if kani::any() { 1 } else { 0 };
    let d = if kani::any() { "+" } else { "-" };
    writeln!(&mut w, "L\t{}\t-\t{}\t{}\t{}M", id, t, d, 2usize).unwrap();
    assert!(w.n == 13 && w.nl == 1);
    assert!(w.buf[6] == b'0' + t as u8);
}
