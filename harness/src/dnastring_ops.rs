//! C14 (growable string), and the DnaString clauses of C12 / C13.
//! State = arbitrary INV_S representation built through the `verif_from_raw` hook:
//!   INV_S: storage.len() == ceil(len/32)  and  every bit beyond `len` is zero.
//! The block count B is a const parameter (heap *shape* concrete), contents and the length
//! inside the last block are symbolic.
use crate::common::*;
use crate::kmer_ops::Rec;
use debruijn::dna_string::{ndiffs, DnaString, DnaStringSlice, PackedDnaStringSet};
use debruijn::{Kmer, Mer, Vmer};
use std::cmp::Ordering;
use std::hash::Hash;

pub fn pad_ok<const B: usize>(raw: &[u64; B], len: usize) -> bool {
    if B == 0 {
        return len == 0;
    }
    if len <= 32 * (B - 1) || len > 32 * B {
        return false;
    }
    let used = len - 32 * (B - 1);
    let mask: u64 = if used == 32 { 0 } else { (!0u64) >> (2 * used) };
    raw[B - 1] & mask == 0
}

pub fn rb(raw: &[u64], i: usize) -> u8 {
    ((raw[i / 32] >> (62 - 2 * (i % 32))) & 3) as u8
}

/// INV_S of a real value, read back through the hook.
pub fn inv_s(s: &DnaString) -> bool {
    let (st, len) = s.verif_raw();
    let blocks = (len + 31) / 32;
    if st.len() != blocks {
        return false;
    }
    if blocks == 0 {
        return true;
    }
    let used = len - 32 * (blocks - 1);
    let mask: u64 = if used == 32 { 0 } else { (!0u64) >> (2 * used) };
    st[blocks - 1] & mask == 0
}

/// arbitrary INV_S string with exactly B blocks
pub fn any_ds<const B: usize>() -> (DnaString, [u64; B], usize) {
    let raw: [u64; B] = kani::any();
    let len: usize = kani::any();
    kani::assume(pad_ok(&raw, len));
    (DnaString::verif_from_raw(raw.to_vec(), len), raw, len)
}

/// arbitrary INV_S string of a *concrete* length
pub fn any_ds_len<const B: usize>(len: usize) -> (DnaString, [u64; B]) {
    let raw: [u64; B] = kani::any();
    kani::assume(pad_ok(&raw, len));
    (DnaString::verif_from_raw(raw.to_vec(), len), raw)
}

// ------------------------------------------------------------------ observers

/// len / is_empty / get / iter / IntoIterator on an arbitrary state
pub fn observe<const B: usize>() {
    let (s, raw, len) = any_ds::<B>();
    assert!(s.len() == len && Mer::len(&s) == len);
    assert!(s.is_empty() == (len == 0) && Mer::is_empty(&s) == (len == 0));
    if len > 0 {
        let i = any_index(len);
        assert!(s.get(i) == rb(&raw, i));
        // iterator: item i is base i; exactly len items
        let mut it = s.iter();
        assert!(it.nth(i) == Some(rb(&raw, i)));
        let mut it2 = (&s).into_iter();
        assert!(it2.nth(len - 1) == Some(rb(&raw, len - 1)));
        assert!(it2.next().is_none());
    } else {
        assert!(s.iter().next().is_none());
    }
    kani::cover!(len == 32 * B);
    kani::cover!(B == 0 || len == 32 * B - 31);
    core::mem::forget(s);
}

/// push(any u8): appends exactly (v & 3), keeps everything else, keeps INV_S.
pub fn push<const B: usize>() {
    let (mut s, raw, len) = any_ds::<B>();
    let v: u8 = kani::any();
    s.push(v);
    assert!(s.len() == len + 1);
    assert!(s.get(len) == v & 3);
    if len > 0 {
        let j = any_index(len);
        assert!(s.get(j) == rb(&raw, j));
    }
    assert!(inv_s(&s));
    kani::cover!(len == 32 * B); // a new block is appended
    kani::cover!(B == 0 || (len < 32 * B && v > 3));
    core::mem::forget(s);
}

/// set_mut(i, any u8): writes (v & 3) at i, frame, INV_S.
pub fn set<const B: usize>() {
    let (mut s, raw, len) = any_ds::<B>();
    let i = any_index(len);
    let j = any_index(len);
    let v: u8 = kani::any();
    s.set_mut(i, v);
    assert!(s.len() == len);
    assert!(s.get(j) == if j == i { v & 3 } else { rb(&raw, j) });
    assert!(inv_s(&s));
    kani::cover!(i == len - 1 && v > 3);
    kani::cover!(i != j);
    core::mem::forget(s);
}

/// clear(): empty, INV_S; then push works from the cleared state.
pub fn clear<const B: usize>() {
    let (mut s, _raw, _len) = any_ds::<B>();
    s.clear();
    assert!(s.len() == 0 && s.is_empty() && inv_s(&s));
    let v = any_base();
    s.push(v);
    assert!(s.len() == 1 && s.get(0) == v && inv_s(&s));
    core::mem::forget(s);
}

/// extend(≤ M items) from a concrete pre-length PRE (B blocks): appended bases in order,
/// frame, INV_S. PRE values straddle the 32-base fast path.
pub fn extend<const B: usize, const PRE: usize, const M: usize>() {
    let (mut s, raw) = any_ds_len::<B>(PRE);
    // M appended items; the backing array has one spare element so that M == 0 is an
    // empty sub-slice of a non-empty object
    let items: [u8; 4] = kani::any();
    let m: usize = M;
    let mut i = 0;
    while i < 4 {
        kani::assume(items[i] < 4);
        i += 1;
    }
    s.extend(items[..m].iter().cloned());
    assert!(s.len() == PRE + m);
    assert!(inv_s(&s));
    if PRE + m > 0 {
        let j = any_index(PRE + m);
        assert!(s.get(j) == if j < PRE { rb(&raw, j) } else { items[j - PRE] });
    }
    kani::cover!(m == M);
    core::mem::forget(s);
}

/// push_bytes(bytes, seq_length): 4 bases per byte, low bits first (as documented by the code's
/// own test), any seq_length <= 4*bytes.len().
pub fn push_bytes<const B: usize, const PRE: usize, const NB: usize>() {
    let (mut s, raw) = any_ds_len::<B>(PRE);
    let bytes: [u8; NB] = kani::any();
    let n: usize = kani::any();
    kani::assume(n <= 4 * NB);
    s.push_bytes(&bytes, n);
    assert!(s.len() == PRE + n);
    assert!(inv_s(&s));
    if PRE + n > 0 {
        let j = any_index(PRE + n);
        let e = if j < PRE {
            rb(&raw, j)
        } else {
            let i = j - PRE;
            (bytes[i / 4] >> (2 * (i % 4))) & 3
        };
        assert!(s.get(j) == e);
    }
    kani::cover!(n == 4 * NB);
    core::mem::forget(s);
}

/// constructors: new / default / with_capacity / blank(N)
pub fn ctors<const N: usize>() {
    let a = DnaString::new();
    assert!(a.len() == 0 && inv_s(&a));
    let d = DnaString::default();
    assert!(d.len() == 0 && inv_s(&d));
    let c = DnaString::with_capacity(N);
    assert!(c.len() == 0 && inv_s(&c));
    assert!(a == d && a == c);
    let b = DnaString::blank(N);
    assert!(b.len() == N && inv_s(&b));
    let v = <DnaString as Vmer>::new(N);
    assert!(v == b);
    if N > 0 {
        let i = any_index(N);
        assert!(b.get(i) == 0);
    }
    core::mem::forget((a, d, c, b, v));
}

/// from_bytes(N symbolic bases): contents, INV_S, equals push-by-push construction.
pub fn from_bytes<const N: usize, const N1: usize>() {
    // N1 == N + 1: the input is a sub-slice of a non-empty object also when N == 0
    let src: [u8; N1] = kani::any();
    let mut i = 0;
    while i < N {
        kani::assume(src[i] < 4);
        i += 1;
    }
    let s = DnaString::from_bytes(&src[..N]);
    assert!(s.len() == N && inv_s(&s));
    if N > 0 {
        let j = any_index(N);
        assert!(s.get(j) == src[j]);
    }
    core::mem::forget(s);
}

/// from_dna_string(&str) on N ASCII chars: base_to_bits of each char, INV_S.
pub fn from_dna_string<const N: usize, const N1: usize>() {
    let src: [u8; N1] = kani::any();
    let mut i = 0;
    while i < N {
        kani::assume(src[i] < 128);
        i += 1;
    }
    let st = unsafe { std::str::from_utf8_unchecked(&src[..N]) };
    let s = DnaString::from_dna_string(st);
    assert!(s.len() == N && inv_s(&s));
    if N > 0 {
        let j = any_index(N);
        assert!(s.get(j) == debruijn::base_to_bits(src[j]));
    }
    kani::cover!(N == 0 || src[0] == b'g');
    kani::cover!(N == 0 || src[0] == b'N');
    kani::cover!(s.len() == N);
    core::mem::forget(s);
}

/// to_bytes / to_ascii_vec / reverse on a short string (concrete length LEN <= 32)
pub fn render<const LEN: usize>() {
    let (s, raw) = any_ds_len::<1>(LEN);
    let j = any_index(LEN);
    let b = s.to_bytes();
    assert!(b.len() == LEN && b[j] == rb(&raw, j));
    let a = s.to_ascii_vec();
    assert!(a.len() == LEN && a[j] == b"ACGT"[rb(&raw, j) as usize]);
    let r = s.reverse();
    assert!(r.len() == LEN && inv_s(&r));
    assert!(r.get(j) == rb(&raw, LEN - 1 - j));
    kani::cover!(rb(&raw, j) == 3);
    core::mem::forget((s, b, a, r));
}

/// C12: DnaString::rc at a concrete length (symbolic content)
pub fn rc<const B: usize, const LEN: usize>() {
    let (s, raw) = any_ds_len::<B>(LEN);
    let r = s.rc();
    assert!(r.len() == LEN && inv_s(&r));
    if LEN > 0 {
        let j = any_index(LEN);
        assert!(r.get(j) == 3 - rb(&raw, LEN - 1 - j));
    }
    kani::cover!(LEN == 0 || r.get(0) == 2);
    kani::cover!(r.len() == LEN);
    core::mem::forget((s, r));
}

/// ndiffs / hamming_distance == number of differing positions (needs the padding half of INV_S)
pub fn ndiffs_<const B: usize>() {
    let (a, ra, len) = any_ds::<B>();
    let rb_: [u64; B] = kani::any();
    kani::assume(pad_ok(&rb_, len));
    let b = DnaString::verif_from_raw(rb_.to_vec(), len);
    let mut n = 0usize;
    let mut i = 0;
    while i < 32 * B {
        if i < len && rb(&ra, i) != rb(&rb_, i) {
            n += 1;
        }
        i += 1;
    }
    assert!(ndiffs(&a, &b) == n);
    assert!(a.hamming_distance(&b) == n);
    kani::cover!(n == len && len > 0);
    kani::cover!(n == 1);
    core::mem::forget((a, b));
}

/// ==, cmp, hash on two arbitrary INV_S states with BA and BB blocks
pub fn eq_ord_hash<const BA: usize, const BB: usize>() {
    let (a, ra, la) = any_ds::<BA>();
    let (b, rb_, lb) = any_ds::<BB>();
    // reference: lexicographic over bases, proper prefix first
    let mut ord = Ordering::Equal;
    let mut i = 0;
    let m = if BA < BB { BA } else { BB };
    while i < 32 * m {
        if ord == Ordering::Equal && i < la && i < lb {
            let x = rb(&ra, i);
            let y = rb(&rb_, i);
            if x < y {
                ord = Ordering::Less;
            } else if x > y {
                ord = Ordering::Greater;
            }
        }
        i += 1;
    }
    if ord == Ordering::Equal {
        ord = la.cmp(&lb);
    }
    assert!((a == b) == (ord == Ordering::Equal));
    assert!(a.cmp(&b) == ord);
    assert!(a.partial_cmp(&b) == Some(ord));
    let mut ha = Rec::new();
    let mut hb = Rec::new();
    a.hash(&mut ha);
    b.hash(&mut hb);
    if ord == Ordering::Equal {
        assert!(ha.n == hb.n && ha.n <= 64);
        let j = any_index(64);
        assert!(ha.buf[j] == hb.buf[j]);
    }
    kani::cover!(ord == Ordering::Equal && (la > 0 || BA == 0) || BA != BB);
    kani::cover!(ord == Ordering::Less && la > lb || BA <= BB);
    kani::cover!(ord == Ordering::Less && la < lb || BA >= BB);
    kani::cover!(ord == Ordering::Greater || BA == 0);
    core::mem::forget((a, b));
}

/// to_owned of a whole-string slice and Clone give an equal value
pub fn clone_eq<const B: usize>() {
    let (s, _raw, _len) = any_ds::<B>();
    let c = s.clone();
    assert!(c == s && inv_s(&c));
    core::mem::forget((s, c));
}

// ------------------------------------------------------------------ C13: extraction

/// DnaString::get_kmer at every position of a B-block string
pub fn get_kmer<K: SymK, const B: usize>() {
    let (s, raw, len) = any_ds::<B>();
    kani::assume(len >= K::k());
    let pos: usize = kani::any();
    kani::assume(pos <= len - K::k());
    let j = any_index(K::k());
    let k: K = s.get_kmer(pos);
    assert!(k.get(j) == rb(&raw, pos + j));
    assert!(k.inv());
    if pos == 0 {
        assert!(s.first_kmer::<K>() == k);
        assert!(s.term_kmer::<K>(debruijn::Dir::Left) == k);
    }
    if pos == len - K::k() {
        assert!(s.last_kmer::<K>() == k);
        assert!(s.term_kmer::<K>(debruijn::Dir::Right) == k);
    }
    kani::cover!(B == 1 || pos / 32 != (pos + K::k() - 1) / 32);
    kani::cover!(pos == len - K::k() && len == 32 * B);
    kani::cover!(pos % 32 != 0 && k.get(j) == 3);
    core::mem::forget(s);
}

// ------------------------------------------------------------------ PackedDnaStringSet

/// add() of a short sequence to an arbitrary consistent set with E entries over a B-block string:
/// the new entry reads back unchanged at index E, earlier entries are intact.
pub fn packed_add<const B: usize, const PRE: usize, const E: usize, const M: usize>() {
    let (seq, raw) = any_ds_len::<B>(PRE);
    let len = PRE;
    let starts: [usize; E] = kani::any();
    let lens: [u32; E] = kani::any();
    let mut i = 0;
    while i < E {
        kani::assume(starts[i] <= len && (lens[i] as usize) <= len - starts[i]);
        i += 1;
    }
    let mut set = PackedDnaStringSet {
        sequence: seq,
        start: starts.to_vec(),
        length: lens.to_vec(),
    };
    assert!(set.len() == E && set.is_empty() == (E == 0));
    let items: [u8; 4] = kani::any();
    let m: usize = M;
    let mut i = 0;
    while i < 4 {
        kani::assume(items[i] < 4);
        i += 1;
    }
    set.add(items[..m].iter());
    assert!(set.len() == E + 1);
    let sl = set.get(E);
    assert!(sl.len() == m);
    if m > 0 {
        let j = any_index(m);
        assert!(sl.get(j) == items[j]);
    }
    if E > 0 {
        let e = any_index(E);
        let old = set.get(e);
        assert!(old.len() == lens[e] as usize);
        if lens[e] > 0 {
            let j = any_index(lens[e] as usize);
            assert!(old.get(j) == rb(&raw, starts[e] + j));
            // slice(i, a, b) index arithmetic
            let a = any_index(lens[e] as usize + 1);
            let b = any_index(lens[e] as usize + 1);
            kani::assume(a <= b);
            let sub = set.slice(e, a, b);
            assert!(sub.len() == b - a);
            if b > a {
                let t = any_index(b - a);
                assert!(sub.get(t) == rb(&raw, starts[e] + a + t));
            }
        }
    }
    assert!(inv_s(&set.sequence));
    kani::cover!(m == M);
    core::mem::forget(set);
}

/// Display of a DnaString of concrete length LEN (symbolic content): the bases as text.
pub fn display<const LEN: usize>() {
    use std::fmt::Write;
    let (s, raw) = any_ds_len::<1>(LEN);
    let mut w = crate::slice_ops::Sink { buf: [0; 16], n: 0 };
    let _ = write!(w, "{}", s);
    assert!(w.n == LEN);
    let j = any_index(LEN);
    assert!(w.buf[j] == b"ACGT"[rb(&raw, j) as usize]);
    kani::cover!(rb(&raw, j) == 2);
    core::mem::forget(s);
}
