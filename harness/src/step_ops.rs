//! C02 / C09: the single path-growth decision of the two compressors, from an arbitrary valid
//! table / graph and an arbitrary availability set (hook H2).  C03: link lookup, edge lists and
//! extension pruning.
use crate::common::*;
use crate::graph_ops::any_bases;
use bit_set::BitSet;
use boomphf::hashmap::BoomHashMap2;
use debruijn::compression::verif_hooks::{try_extend_kmer_step, try_extend_node_step, Step};
use debruijn::compression::{CompressionSpec, ScmapCompress, SimpleCompress};
use debruijn::filter::{remove_censored_exts, remove_censored_exts_sharded};
use debruijn::graph::{BaseGraph, DebruijnGraph};
use debruijn::{Dir, Exts, Kmer, Mer, Vmer};

// ---- independent reference helpers over the documented Exts layout
fn nib(e: Exts, d: Dir) -> u8 {
    if is_left(d) {
        e.val & 0xf
    } else {
        e.val >> 4
    }
}
fn cnt(e: Exts, d: Dir) -> u8 {
    let n = nib(e, d);
    (n & 1) + ((n >> 1) & 1) + ((n >> 2) & 1) + ((n >> 3) & 1)
}
fn uniq(e: Exts, d: Dir) -> u8 {
    let n = nib(e, d);
    if n == 1 {
        0
    } else if n == 2 {
        1
    } else if n == 4 {
        2
    } else {
        3
    }
}
fn pal<K: SymK>(k: K) -> bool {
    k.raw() == k.rc().raw()
}
fn flipd(d: Dir) -> Dir {
    if is_left(d) {
        Dir::Right
    } else {
        Dir::Left
    }
}

fn avail_set<const N: usize>(avail: &[bool; N]) -> BitSet {
    let mut s = BitSet::with_capacity(N);
    let mut i = 0;
    while i < N {
        if avail[i] {
            s.insert(i);
        }
        i += 1;
    }
    s
}

/// C02: one call of CompressFromHash::try_extend_kmer on an N-row table.
/// JOIN_EQ selects the payload-equality ("colour") predicate, otherwise always-true.
pub fn kmer_step<K: SymK, const N: usize, const JOIN_EQ: bool>() {
    let stranded: bool = kani::any();
    let mut keys: [K; N] = [K::empty(); N];
    let mut exts: [Exts; N] = [Exts::empty(); N];
    let data: [u8; N] = kani::any();
    let avail: [bool; N] = kani::any();
    let mut i = 0;
    while i < N {
        keys[i] = K::any_valid();
        exts[i] = any_exts();
        // table validity: distinct keys; canonical representatives when unstranded
        if !stranded {
            kani::assume(keys[i].raw() <= keys[i].rc().raw());
        }
        let mut j = 0;
        while j < i {
            kani::assume(keys[j].raw() != keys[i].raw());
            j += 1;
        }
        i += 1;
    }
    let start = any_index(N);
    let dir = any_dir();
    let kmer = keys[start];
    let e = exts[start];

    // ---- reference decision, in string terms
    // expected: None = Terminal(e.single_dir(dir)), Some((row, next_dir, out_side))
    let mut expect: Option<(usize, Dir, Dir)> = None;
    let mut precondition = true;
    if cnt(e, dir) == 1 && (stranded || !pal(kmer)) {
        let b = uniq(e, dir);
        let raw_next = kmer.extend(b, dir);
        let rc_next = raw_next.rc();
        let flip = !stranded && !(raw_next.raw() < rc_next.raw());
        let next = if flip { rc_next } else { raw_next };
        // is it present?
        let mut t = N;
        let mut r = 0;
        while r < N {
            if keys[r].raw() == next.raw() {
                t = r;
            }
            r += 1;
        }
        if t < N && avail[t] {
            // we arrive at the raw next k-mer from the side opposite to `dir`; if the table holds
            // its reverse complement the sides swap
            let incoming = if flip { dir } else { flipd(dir) };
            let is_pal = !stranded && pal(next);
            let inc = cnt(exts[t], incoming);
            // the code documents inc == 0 on a non-palindrome as unreachable (extensions are reciprocal)
            if inc == 0 && !is_pal {
                precondition = false;
            }
            let join = if JOIN_EQ { data[start] == data[t] } else { true };
            if join && inc == 1 && !is_pal {
                let next_dir = if flip { flipd(dir) } else { dir };
                expect = Some((t, next_dir, flipd(incoming)));
            }
        }
    }
    kani::assume(precondition);

    let index = BoomHashMap2::new(keys.to_vec(), exts.to_vec(), data.to_vec());
    // availability is kept per perfect-hash slot: the identity in the model, a permutation in the
    // real boomphf that native replays run against
    let mut set = BitSet::with_capacity(N);
    let mut i = 0;
    while i < N {
        if avail[i] {
            #[cfg(test)]
            set.insert(index.get_key_id(&keys[i]).expect("row key is in the table") as usize);
            #[cfg(not(test))]
            set.insert(i); // the model M1 keeps insertion order (checked in walk_ops::slots)
        }
        i += 1;
    }
    let got = if JOIN_EQ {
        let spec: ScmapCompress<u8> = ScmapCompress::new();
        try_extend_kmer_step(stranded, &spec, &index, set, kmer, dir)
    } else {
        let spec = SimpleCompress::new(|a: u8, _b: &u8| a);
        try_extend_kmer_step(stranded, &spec, &index, set, kmer, dir)
    };
    match (got, expect) {
        (Step::Terminal(x), None) => {
            assert!(x.val == nib(e, dir));
        }
        (Step::Unique(k2, d2, x), Some((t, nd, out))) => {
            assert!(k2.raw() == keys[t].raw());
            assert!(same_dir(d2, nd));
            assert!(x.val == nib(exts[t], out));
        }
        (Step::Unique(_, _, _), None) => assert!(false, "joined where the path must end"),
        (Step::Terminal(_), Some(_)) => assert!(false, "ended the path where the link is joinable"),
    }
    kani::cover!(expect.is_some() && stranded);
    kani::cover!(expect.is_some() && !stranded && !same_dir(expect.unwrap().1, dir));
    kani::cover!(expect.is_none() && cnt(e, dir) == 1);
    kani::cover!(N == 1 || (expect.is_some() && expect.unwrap().0 != start));
    core::mem::forget(index);
}

// ---------------------------------------------------------------- graphs
/// NN-node graph; node i has K + extra[i] bases (extra concrete per instantiation)
pub struct G<K: SymK, const NN: usize, const L: usize> {
    pub g: DebruijnGraph<K, u8>,
    pub seqs: [[u8; L]; NN],
    pub lens: [usize; NN],
    pub exts: [Exts; NN],
    pub data: [u8; NN],
    pub stranded: bool,
}

pub fn any_graph<K: SymK, const NN: usize, const L: usize>(lens: [usize; NN]) -> G<K, NN, L> {
    let stranded: bool = kani::any();
    let mut seqs = [[0u8; L]; NN];
    let mut exts = [Exts::empty(); NN];
    let data: [u8; NN] = kani::any();
    let mut g: BaseGraph<K, u8> = BaseGraph::new(stranded);
    let mut i = 0;
    while i < NN {
        seqs[i] = any_bases::<L>();
        exts[i] = any_exts();
        g.add(seqs[i][..lens[i]].iter(), exts[i], data[i]);
        i += 1;
    }
    G {
        g: g.finish_serial(),
        seqs,
        lens,
        exts,
        data,
        stranded,
    }
}

impl<K: SymK, const NN: usize, const L: usize> G<K, NN, L> {
    /// terminal k-mer of node i on side d, from the plain bases
    pub fn term(&self, i: usize, d: Dir) -> K {
        let off = if is_left(d) { 0 } else { self.lens[i] - K::k() };
        let mut v: u128 = 0;
        let mut j = 0;
        while j < K::k() {
            v = (v << 2) | self.seqs[i][off + j] as u128;
            j += 1;
        }
        K::from_raw(v)
    }

    /// reference link lookup: which node end does k-mer `q`, reached by moving in `dir`, denote?
    /// Some((id, side, flip)): node id's k-mer on `side` equals q (flip=false; side faces us) or
    /// rc(q) (flip=true; same side; unstranded only); direct matches take precedence.
    pub fn ref_link(&self, q: K, dir: Dir) -> Option<(usize, Dir, bool)> {
        let facing = flipd(dir);
        let mut i = 0;
        while i < NN {
            if self.term(i, facing).raw() == q.raw() {
                return Some((i, facing, false));
            }
            i += 1;
        }
        if !self.stranded {
            let r = q.rc();
            let mut i = 0;
            while i < NN {
                if self.term(i, dir).raw() == r.raw() {
                    return Some((i, dir, true));
                }
                i += 1;
            }
        }
        None
    }

    /// index validity: the k-mers on one side are pairwise distinct (precondition of the MPHF)
    pub fn assume_distinct_ends(&self) {
        let mut i = 0;
        while i < NN {
            let mut j = 0;
            while j < i {
                kani::assume(self.term(i, Dir::Left).raw() != self.term(j, Dir::Left).raw());
                kani::assume(self.term(i, Dir::Right).raw() != self.term(j, Dir::Right).raw());
                j += 1;
            }
            i += 1;
        }
    }
}

/// C03: find_link for ALL query k-mers (present and absent), both directions.
pub fn find_link<K: SymK, const NN: usize, const L: usize>(lens: [usize; NN]) {
    let g = any_graph::<K, NN, L>(lens);
    g.assume_distinct_ends();
    let q = K::any_valid();
    let dir = any_dir();
    let got = g.g.find_link(q, dir);
    let want = g.ref_link(q, dir);
    match (got, want) {
        (None, None) => {}
        (Some((a, s, f)), Some((b, t, h))) => {
            assert!(a == b && same_dir(s, t) && f == h);
        }
        _ => assert!(false, "link lookup disagrees with the node ends"),
    }
    kani::cover!(matches!(want, Some((_, _, true))));
    kani::cover!(matches!(want, Some((1, _, false))));
    kani::cover!(want.is_none());
    core::mem::forget(g);
}

/// C03: edge lists = exactly the set extension bits that resolve, in base order.
pub fn find_edges<K: SymK, const NN: usize, const L: usize>(lens: [usize; NN]) {
    let g = any_graph::<K, NN, L>(lens);
    g.assume_distinct_ends();
    let node = any_index(NN);
    let dir = any_dir();
    let n = g.g.get_node(node);
    let edges = n.edges(dir);
    let tk = g.term(node, dir);
    let mut cntr = 0usize;
    let mut b = 0u8;
    while b < 4 {
        if (nib(g.exts[node], dir) >> b) & 1 == 1 {
            if let Some((id, side, flip)) = g.ref_link(tk.extend(b, dir), dir) {
                assert!(cntr < edges.len());
                let (a, s, f) = edges[cntr];
                assert!(a == id && same_dir(s, side) && f == flip);
                cntr += 1;
            }
        }
        b += 1;
    }
    assert!(edges.len() == cntr);
    let alt = if is_left(dir) { n.l_edges() } else { n.r_edges() };
    assert!(alt.len() == cntr);
    assert!(n.exts() == g.exts[node] && *n.data() == g.data[node] && n.len() == lens[node]);
    kani::cover!(cntr == 2);
    kani::cover!(cntr == 0 && nib(g.exts[node], dir) != 0);
    // the same neighbour reached twice from one side (needs a neighbour longer than K+1)
    kani::cover!(L < 5 || (cntr == 2 && edges[0].0 == edges[1].0));
    core::mem::forget(g);
}

/// C03/C09: get_valid_exts / fix_exts keep a bit iff it was set and resolves to a valid node.
pub fn fix_exts<K: SymK, const NN: usize, const L: usize>(lens: [usize; NN]) {
    let mut g = any_graph::<K, NN, L>(lens);
    g.assume_distinct_ends();
    let valid: [bool; NN] = kani::any();
    let use_set: bool = kani::any();
    let set = avail_set(&valid);
    let node = any_index(NN);
    let d = any_dir();
    let b = any_base();
    let tk = g.term(node, d);
    let was = (nib(g.exts[node], d) >> b) & 1 == 1;
    let want = was
        && match g.ref_link(tk.extend(b, d), d) {
            Some((t, _, _)) => !use_set || valid[t],
            None => false,
        };
    let ve = g.g.get_valid_exts(node, if use_set { Some(&set) } else { None });
    assert!(ve.has_ext(d, b) == want);
    g.g.fix_exts(if use_set { Some(&set) } else { None });
    assert!(g.g.get_node(node).exts().has_ext(d, b) == want);
    kani::cover!(was && !want && use_set);
    kani::cover!(was && want);
    core::mem::forget(g);
}

/// C09: one call of CompressFromGraph::try_extend_node.
pub fn node_step<K: SymK, const NN: usize, const L: usize, const JOIN_EQ: bool>(lens: [usize; NN]) {
    let g = any_graph::<K, NN, L>(lens);
    g.assume_distinct_ends();
    let avail: [bool; NN] = kani::any();
    let start = any_index(NN);
    let dir = any_dir();
    let e = g.exts[start];
    let mut expect: Option<(usize, Dir)> = None; // (node, outgoing side)
    let mut precondition = true;
    let single_pal = !g.stranded && lens[start] == K::k() && pal(g.term(start, Dir::Left));
    if cnt(e, dir) == 1 && !single_pal {
        let b = uniq(e, dir);
        let next = g.term(start, dir).extend(b, dir);
        match g.ref_link(next, dir) {
            None => precondition = false, // code panics "No kmer": extensions must reference present nodes
            Some((t, incoming, _flip)) => {
                let join = if JOIN_EQ { g.data[start] == g.data[t] } else { true };
                if avail[t] && (g.stranded || !pal(next)) && join {
                    let inc = cnt(g.exts[t], incoming);
                    if inc == 0 {
                        precondition = false; // documented unreachable
                    } else if inc == 1 {
                        expect = Some((t, flipd(incoming)));
                    }
                }
            }
        }
    }
    kani::assume(precondition);
    let set = avail_set(&avail);
    let got = if JOIN_EQ {
        let spec: ScmapCompress<u8> = ScmapCompress::new();
        try_extend_node_step(g.stranded, &spec, &g.g, set, start, dir)
    } else {
        let spec = SimpleCompress::new(|a: u8, _b: &u8| a);
        try_extend_node_step(g.stranded, &spec, &g.g, set, start, dir)
    };
    match (got, expect) {
        (Step::Terminal(x), None) => assert!(x.val == nib(e, dir)),
        (Step::Unique(t2, d2, x), Some((t, out))) => {
            assert!(t2 == t && same_dir(d2, out));
            assert!(x.val == nib(g.exts[t], out));
        }
        (Step::Unique(_, _, _), None) => assert!(false, "merged nodes where the path must end"),
        (Step::Terminal(_), Some(_)) => assert!(false, "ended the path where the nodes are mergeable"),
    }
    kani::cover!(expect.is_some() && g.stranded);
    kani::cover!(expect.is_some() && !g.stranded && same_dir(expect.unwrap().1, flipd(dir)));
    kani::cover!(expect.is_none() && cnt(e, dir) == 1);
    core::mem::forget(g);
}

/// C09: sequence_of_path over two nodes: K-1 overlap, rc for right-entered nodes.
pub fn sequence_of_path<K: SymK, const L: usize>(lens: [usize; 2], a: usize, b: usize) {
    // node order concrete (so that the copy loops have static trip counts), entry sides symbolic
    let g = any_graph::<K, 2, L>(lens);
    let da = any_dir();
    let db = any_dir();
    let path = [(a, da), (b, db)];
    let s = g.g.sequence_of_path(path.iter());
    let la = lens[a];
    let lb = lens[b];
    assert!(s.len() == la + lb - (K::k() - 1));
    let at = |n: usize, d: Dir, p: usize| -> u8 {
        if is_left(d) {
            g.seqs[n][p]
        } else {
            3 - g.seqs[n][lens[n] - 1 - p]
        }
    };
    let j = any_index(la + lb - (K::k() - 1));
    let want = if j < la { at(a, da, j) } else { at(b, db, j - la + K::k() - 1) };
    assert!(s.get(j) == want);
    kani::cover!(!is_left(da) && is_left(db));
    core::mem::forget((s, g));
}

/// C03: remove_censored_exts on a sorted table of N rows: a bit survives iff it was set and the
/// (canonical) extended k-mer is a key of the table; nothing else changes.
pub fn censor<K: SymK, const N: usize>() {
    let stranded: bool = kani::any();
    let mut rows: [(K, (Exts, u8)); N] = [(K::empty(), (Exts::empty(), 0)); N];
    let mut i = 0;
    while i < N {
        rows[i] = (K::any_valid(), (any_exts(), kani::any()));
        if i > 0 {
            kani::assume(rows[i - 1].0.raw() < rows[i].0.raw()); // sorted, distinct
        }
        i += 1;
    }
    let before = rows;
    remove_censored_exts(stranded, &mut rows);
    let r = any_index(N);
    let d = any_dir();
    let b = any_base();
    let x = before[r].0.extend(b, d);
    let xr = x.rc();
    let target = if stranded || x.raw() < xr.raw() { x } else { xr };
    let mut present = false;
    let mut t = 0;
    while t < N {
        present |= before[t].0.raw() == target.raw();
        t += 1;
    }
    let was = (nib((before[r].1).0, d) >> b) & 1 == 1;
    assert!((rows[r].1).0.has_ext(d, b) == (was && present));
    assert!(rows[r].0 == before[r].0 && (rows[r].1).1 == (before[r].1).1);
    kani::cover!(was && present);
    kani::cover!(was && !present);
}

/// C03: the sharded variant: a bit is removed iff its target is in `all_kmers` but not valid.
pub fn censor_sharded<K: SymK, const N: usize, const M: usize>() {
    let stranded: bool = kani::any();
    let mut rows: [(K, (Exts, u8)); N] = [(K::empty(), (Exts::empty(), 0)); N];
    let mut i = 0;
    while i < N {
        rows[i] = (K::any_valid(), (any_exts(), kani::any()));
        if i > 0 {
            kani::assume(rows[i - 1].0.raw() < rows[i].0.raw());
        }
        i += 1;
    }
    let mut all: [K; M] = [K::empty(); M];
    let mut i = 0;
    while i < M {
        all[i] = K::any_valid();
        if i > 0 {
            kani::assume(all[i - 1].raw() < all[i].raw());
        }
        i += 1;
    }
    let before = rows;
    remove_censored_exts_sharded(stranded, &mut rows, &all);
    let r = any_index(N);
    let d = any_dir();
    let b = any_base();
    let x = before[r].0.extend(b, d);
    let xr = x.rc();
    let target = if stranded || x.raw() < xr.raw() { x } else { xr };
    let mut valid = false;
    let mut t = 0;
    while t < N {
        valid |= before[t].0.raw() == target.raw();
        t += 1;
    }
    let mut seen = false;
    let mut t = 0;
    while t < M {
        seen |= all[t].raw() == target.raw();
        t += 1;
    }
    let was = (nib((before[r].1).0, d) >> b) & 1 == 1;
    assert!((rows[r].1).0.has_ext(d, b) == (was && !(seen && !valid)));
    assert!(rows[r].0 == before[r].0 && (rows[r].1).1 == (before[r].1).1);
    kani::cover!(was && seen && !valid);
    kani::cover!(was && !seen);
    kani::cover!(was && valid);
}

// ---------------------------------------------------------------- C09 growth loops (hook H2c)
use debruijn::compression::verif_hooks::{build_graph_node_from, extend_node_walk};

impl<K: SymK, const NN: usize, const L: usize> G<K, NN, L> {
    /// The node-level join decision in string terms (the statement checked by `node_step`).
    /// -> (graph valid on the examined link, Some((next node, outgoing side)) when mergeable)
    pub fn ref_node_step<const JOIN_EQ: bool>(&self, avail: &[bool; NN], cur: usize, dir: Dir) -> (bool, Option<(usize, Dir)>) {
        let e = self.exts[cur];
        let single_pal = !self.stranded && self.lens[cur] == K::k() && pal(self.term(cur, Dir::Left));
        if cnt(e, dir) == 1 && !single_pal {
            let b = uniq(e, dir);
            let next = self.term(cur, dir).extend(b, dir);
            match self.ref_link(next, dir) {
                None => return (false, None), // code panics "No kmer": extensions must reference present nodes
                Some((t, incoming, _flip)) => {
                    let join = if JOIN_EQ { self.data[cur] == self.data[t] } else { true };
                    if avail[t] && (self.stranded || !pal(next)) && join {
                        let inc = cnt(self.exts[t], incoming);
                        if inc == 0 {
                            return (false, None); // documented unreachable
                        } else if inc == 1 {
                            return (true, Some((t, flipd(incoming))));
                        }
                    }
                }
            }
        }
        (true, None)
    }

    /// Reference walk over nodes. Marks the start node and every walked node unavailable.
    /// -> (valid, [(node, incoming side)], count, end node, end direction)
    pub fn ref_node_walk<const JOIN_EQ: bool>(&self, avail: &mut [bool; NN], start: usize, start_dir: Dir) -> (bool, [(usize, Dir); NN], usize, usize, Dir) {
        let mut path = [(0usize, Dir::Left); NN];
        let mut n = 0;
        let mut ok = true;
        let mut cur = start;
        let mut dir = start_dir;
        avail[start] = false;
        let mut it = 0;
        while it < NN {
            let (v, r) = self.ref_node_step::<JOIN_EQ>(avail, cur, dir);
            ok &= v;
            match r {
                Some((t, out)) => {
                    path[n] = (t, flipd(out));
                    n += 1;
                    avail[t] = false;
                    cur = t;
                    dir = out;
                }
                None => break,
            }
            it += 1;
        }
        (ok, path, n, cur, dir)
    }

    /// base p of node n read in orientation d (Left = as stored, Right = reverse complement)
    pub fn oriented(&self, n: usize, d: Dir, p: usize) -> u8 {
        if is_left(d) {
            self.seqs[n][p]
        } else {
            3 - self.seqs[n][self.lens[n] - 1 - p]
        }
    }
}

/// C09: `extend_node` — the node walk continues exactly while the node-level decision says
/// Unique, visits the reference walk's nodes with the reference incoming sides, removes exactly
/// those nodes (and the start node) from the availability set, reports the end extensions.
pub fn node_walk<K: SymK, const NN: usize, const L: usize, const JOIN_EQ: bool>(lens: [usize; NN]) {
    let g = any_graph::<K, NN, L>(lens);
    g.assume_distinct_ends();
    let avail0: [bool; NN] = kani::any();
    let start = any_index(NN);
    let dir = any_dir();
    let mut avail = avail0;
    let (ok, rpath, rn, end, end_dir) = g.ref_node_walk::<JOIN_EQ>(&mut avail, start, dir);
    kani::assume(ok);
    let set = avail_set(&avail0);
    let (path, e, after) = if JOIN_EQ {
        let spec: ScmapCompress<u8> = ScmapCompress::new();
        extend_node_walk(g.stranded, &spec, &g.g, set, start, dir)
    } else {
        let spec = SimpleCompress::new(|a: u8, _b: &u8| a);
        extend_node_walk(g.stranded, &spec, &g.g, set, start, dir)
    };
    assert!(path.len() == rn);
    let mut i = 0;
    while i < NN {
        if i < rn {
            assert!(path[i].0 == rpath[i].0 && same_dir(path[i].1, rpath[i].1));
        }
        assert!(after.contains(i) == avail[i]);
        i += 1;
    }
    assert!(e.val == nib(g.exts[end], end_dir));
    kani::cover!(rn == NN - 1);
    kani::cover!(rn == 0 && cnt(g.exts[start], dir) == 1);
    kani::cover!(rn >= 1 && !g.stranded && same_dir(rpath[0].1, dir));
    core::mem::forget((g, path, after));
}

/// C09: `build_node` of the graph re-compressor — merged sequence, node path, payload fold,
/// extensions and availability bookkeeping against the reference walk (left, then right).
pub fn graph_build_node<K: SymK, const NN: usize, const L: usize, const JOIN_EQ: bool>(lens: [usize; NN]) {
    let g = any_graph::<K, NN, L>(lens);
    g.assume_distinct_ends();
    let avail0: [bool; NN] = kani::any();
    let seed = any_index(NN);
    kani::assume(avail0[seed]);
    let k = K::k();
    let mut avail = avail0;
    let (ok_l, lp, ln, lend, lend_dir) = g.ref_node_walk::<JOIN_EQ>(&mut avail, seed, Dir::Left);
    let (ok_r, rp, rn, rend, rend_dir) = g.ref_node_walk::<JOIN_EQ>(&mut avail, seed, Dir::Right);
    kani::assume(ok_l && ok_r);
    let set = avail_set(&avail0);
    let (s, e, np, d, after) = if JOIN_EQ {
        let spec: ScmapCompress<u8> = ScmapCompress::new();
        build_graph_node_from(g.stranded, &spec, &g.g, set, seed)
    } else {
        let spec = SimpleCompress::new(|a: u8, b: &u8| a.wrapping_add(b.wrapping_mul(2)).wrapping_add(1));
        build_graph_node_from(g.stranded, &spec, &g.g, set, seed)
    };
    // chain in reading order: lp[ln-1] .. lp[0], seed, rp[0] .. rp[rn-1]; member m is read
    // forward (Left) iff: left part — it was entered on its Right side while walking left;
    // right part — it was entered on its Left side while walking right
    let members = 1 + ln + rn;
    assert!(np.len() == members);
    let member = |m: usize| -> (usize, Dir) {
        if m < ln {
            let (n, inc) = lp[ln - 1 - m];
            (n, flipd(inc))
        } else if m == ln {
            (seed, Dir::Left)
        } else {
            rp[m - ln - 1]
        }
    };
    // (1) node path
    let m = any_index(NN);
    kani::assume(m < members);
    let (mn, md) = member(m);
    assert!(np[m].0 == mn && same_dir(np[m].1, md));
    // (2) merged sequence: members overlapped by K-1, each in its reading orientation
    let mut total = 0usize;
    let mut off = [0usize; NN];
    let mut i = 0;
    while i < NN {
        if i < members {
            let (n, _) = member(i);
            off[i] = if i == 0 { 0 } else { total - (k - 1) };
            total = off[i] + lens[n];
        }
        i += 1;
    }
    assert!(s.len() == total);
    let p = any_index(L);
    kani::assume(p < lens[mn]);
    assert!(s.get(off[m] + p) == g.oriented(mn, md, p));
    // (3) bookkeeping and (4) payload
    let mut fold = g.data[seed];
    let mut i = 0;
    while i < NN {
        assert!(after.contains(i) == avail[i]);
        if avail0[i] && !avail[i] && i != seed {
            fold = fold.wrapping_add(g.data[i].wrapping_mul(2)).wrapping_add(1);
        }
        i += 1;
    }
    if JOIN_EQ {
        assert!(d == g.data[seed]);
    } else {
        assert!(d == fold);
    }
    // (5) extensions of the merged node, in reading orientation
    let lraw = nib(g.exts[lend], lend_dir);
    let lwant = if is_left(lend_dir) { lraw } else { compl4(lraw) };
    let rraw = nib(g.exts[rend], rend_dir);
    let rwant = if is_left(rend_dir) { compl4(rraw) } else { rraw };
    assert!(e.val == (lwant | (rwant << 4)));
    kani::cover!(members == NN && NN > 1);
    kani::cover!(members == 1);
    kani::cover!(ln >= 1 && is_left(lp[0].1));
    kani::cover!(rn >= 1 && !is_left(rp[0].1));
    core::mem::forget((g, s, np, after));
}

fn compl4(n: u8) -> u8 {
    ((n & 1) << 3) | ((n & 2) << 1) | ((n & 4) >> 1) | ((n & 8) >> 3)
}
