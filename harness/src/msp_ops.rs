//! C07 (minimizer partition) and C08 (shard assignment). P = Kmer2, reads of N symbolic bases.
use crate::common::*;
use crate::graph_ops::any_bases;
use debruijn::kmer::Kmer2;
use debruijn::msp::{msp_sequence, Scanner};
use debruijn::vmer::Lmer1;
use debruijn::{Dir, DnaSlice, Exts, Kmer, Mer, Vmer};

const P: usize = 2;

fn pmer(seq: &[u8], q: usize) -> usize {
    (seq[q] as usize) * 4 + seq[q + 1] as usize
}

/// C07: Scanner::scan with a fully symbolic 16-entry score table.
pub fn scan<const N: usize, const KK: usize>() {
    let seq = any_bases::<N>();
    let table: [usize; 16] = kani::any();
    let k = KK;
    let dna = DnaSlice(&seq);
    let score = |p: &Kmer2| table[p.to_u64() as usize];
    let ivs = Scanner::new(&dna, score, k).scan();
    let n = ivs.len();
    assert!(n >= 1 && n <= N - k + 1);
    // chain of starts: first at 0, consecutive overlap exactly k-1, last ends at N
    let mut next_start = 0usize;
    let mut i = 0;
    while i < n {
        let start = ivs[i].start as usize;
        let len = ivs[i].len as usize;
        assert!(start == next_start);
        assert!(len >= k && len <= 2 * k - P);
        assert!(start + len <= N);
        next_start = start + len - (k - 1);
        if i + 1 == n {
            assert!(start + len == N);
        }
        i += 1;
    }
    // everything else about ONE arbitrary interval
    let i = any_index(n);
    let iv = &ivs[i];
    let start = iv.start as usize;
    let len = iv.len as usize;
    let mp = iv.minimizer_pos as usize;
    // the reported minimizer is the p-mer at the reported position
    assert!(mp + P <= N);
    assert!(iv.minimizer.to_u64() as usize == pmer(&seq, mp));
    // ... lies inside every k-mer of the interval
    assert!(mp >= start + len - k);
    assert!(mp + P <= start + k);
    // ... and has the minimum score among all p-mers of the interval
    let ms = table[pmer(&seq, mp)];
    let q = any_index(N);
    if q >= start && q + P <= start + len {
        assert!(table[pmer(&seq, q)] >= ms);
    }
    // maximality: the interval does not end while the next k-mer still contains the
    // minimizer and brings no strictly better p-mer
    if i + 1 < n {
        let s2 = start + len - k + 1; // start of the next k-mer
        let newp = s2 + k - P; // the only new p-mer it brings
        assert!(mp < s2 || table[pmer(&seq, newp)] < ms);
    }
    kani::cover!(n == N - k + 1);
    kani::cover!(n == 1 || N - k + 1 > k - P + 1);
    kani::cover!(table[0] == table[5] && table[1] == table[5]);
    kani::cover!(k == P || (i == n - 1 && mp > start));
    core::mem::forget(ivs);
}

fn rc2(x: usize) -> usize {
    // reverse complement of a 2-mer rank
    let a = x / 4;
    let b = x % 4;
    (3 - b) * 4 + (3 - a)
}

/// C08: msp_sequence with an injective permutation table (or the default one) and symbolic rc flag.
pub fn shard<const N: usize, const KK: usize, const SYMPERM: bool>() {
    let seq = any_bases::<N>();
    let k = KK;
    let rc: bool = kani::any();
    let mut perm: [usize; 16] = [0; 16];
    if SYMPERM {
        perm = kani::any();
        let mut a = 0;
        while a < 16 {
            kani::assume(perm[a] < 16);
            let mut b = 0;
            while b < a {
                kani::assume(perm[a] != perm[b]);
                b += 1;
            }
            a += 1;
        }
    } else {
        let mut a = 0;
        while a < 16 {
            perm[a] = a;
            a += 1;
        }
    }
    let pieces = if SYMPERM {
        msp_sequence::<Kmer2, Lmer1>(k, &seq, Some(&perm[..]), rc)
    } else {
        msp_sequence::<Kmer2, Lmer1>(k, &seq, None, rc)
    };
    let sc = |x: usize| {
        if rc {
            core::cmp::min(perm[x], perm[rc2(x)])
        } else {
            perm[x]
        }
    };
    let n = pieces.len();
    assert!(n >= 1 && n <= N - k + 1);
    // derive the start of every piece from the overlap rule; remember the one of piece `idx`
    let idx = any_index(n);
    let mut start = 0usize;
    let mut acc = 0usize;
    let mut i = 0;
    while i < n {
        let len = pieces[i].2.len();
        assert!(len >= k && acc + len <= N);
        if i == idx {
            start = acc;
        }
        acc = acc + len - (k - 1);
        i += 1;
    }
    // together the pieces cover the read exactly
    assert!(acc + k - 1 == N);
    let (bucket, exts, ref piece) = pieces[idx];
    let len = piece.len();
    // the piece is the exact substring
    let j = any_index(len);
    assert!(piece.get(j) == seq[start + j]);
    // boundary extensions are exactly the flanking bases, none at a read end
    let b = any_base();
    assert!(exts.has_ext(Dir::Left, b) == (start > 0 && seq[start - 1] == b));
    assert!(exts.has_ext(Dir::Right, b) == (start + len < N && seq[start + len] == b));
    // an arbitrary k-mer of the piece carries the bucket that is a function of the k-mer alone:
    // canonical form of the arg-min p-mer of THIS k-mer
    let off = any_index(len - k + 1);
    let s = start + off;
    let mut best = pmer(&seq, s);
    let mut q = 1;
    while q + P <= k {
        let x = pmer(&seq, s + q);
        if sc(x) < sc(best) {
            best = x;
        }
        q += 1;
    }
    let canon = core::cmp::min(best, rc2(best));
    assert!(bucket as usize == canon);
    kani::cover!(N == k || (n > 1 && rc));
    kani::cover!(n == 1 && !rc);
    core::mem::forget(pieces);
}

/// C07 (wrapper clause): the deprecated `simple_scan` builds its score from a permutation table and
/// the rc flag. With an injective table: intervals tile the read with k-1 overlap, and every
/// interval's bucket is the canonical form of the p-mer that minimises
/// score(x) = rc ? min(perm[x], perm[rc x]) : perm[x] over the interval.
#[allow(deprecated)]
pub fn simple_scan<const N: usize, const KK: usize>() {
    let seq = any_bases::<N>();
    let k = KK;
    let rc: bool = kani::any();
    let perm: [usize; 16] = kani::any();
    let mut a = 0;
    while a < 16 {
        kani::assume(perm[a] < 16);
        let mut b = 0;
        while b < a {
            kani::assume(perm[a] != perm[b]);
            b += 1;
        }
        a += 1;
    }
    let dna = DnaSlice(&seq);
    let ivs = debruijn::msp::simple_scan::<_, Kmer2>(k, &dna, &perm, rc);
    let sc = |x: usize| {
        if rc {
            core::cmp::min(perm[x], perm[rc2(x)])
        } else {
            perm[x]
        }
    };
    let n = ivs.len();
    assert!(n >= 1 && n <= N - k + 1);
    let idx = any_index(n);
    let mut next_start = 0usize;
    let mut i = 0;
    while i < n {
        assert!(ivs[i].start() == next_start);
        assert!(ivs[i].len() >= k && ivs[i].end() <= N);
        assert!(ivs[i].range().end == ivs[i].end() && !ivs[i].is_empty());
        next_start = ivs[i].start() + ivs[i].len() - (k - 1);
        if i + 1 == n {
            assert!(ivs[i].end() == N);
        }
        i += 1;
    }
    let iv = &ivs[idx];
    // arg-min p-mer of the interval under the wrapper's score
    let mut best = pmer(&seq, iv.start());
    let mut q = iv.start() + 1;
    while q + P <= iv.end() {
        let x = pmer(&seq, q);
        if sc(x) < sc(best) {
            best = x;
        }
        q += 1;
    }
    let canon = core::cmp::min(best, rc2(best));
    assert!(iv.bucket() as usize == canon);
    kani::cover!(rc && n == 1);
    kani::cover!(!rc);
    core::mem::forget(ivs);
}
