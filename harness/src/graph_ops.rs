//! Graph-level harnesses: C18 (node k-mer iterator), C03 (find_link / find_edges / fix_exts),
//! C09 (sequence_of_path). Graphs are built with the public BaseGraph::add + finish_serial over
//! the boomphf model M1; node count and node lengths are concrete, bases / Exts / flags symbolic.
use crate::common::*;
use bit_set::BitSet;
use debruijn::dna_string::DnaString;
use debruijn::graph::{BaseGraph, DebruijnGraph};
use debruijn::{Dir, Exts, Kmer, Mer, Vmer};

pub fn any_bases<const L: usize>() -> [u8; L] {
    let b: [u8; L] = kani::any();
    let mut i = 0;
    while i < L {
        kani::assume(b[i] < 4);
        i += 1;
    }
    b
}

/// two-node graph, node 0 has L0 bases, node 1 has L1 bases
pub fn graph2<K: SymK, const L0: usize, const L1: usize>(
    stranded: bool,
) -> (DebruijnGraph<K, u8>, [u8; L0], [u8; L1], Exts, Exts) {
    let s0 = any_bases::<L0>();
    let s1 = any_bases::<L1>();
    let e0 = any_exts();
    let e1 = any_exts();
    let mut g: BaseGraph<K, u8> = BaseGraph::new(stranded);
    g.add(s0.iter(), e0, kani::any());
    g.add(s1.iter(), e1, kani::any());
    // index validity (precondition of the perfect hash the real graph is built on): the first
    // k-mers of the nodes are pairwise distinct, and so are the last k-mers
    let k = K::k();
    let mut same_first = true;
    let mut same_last = true;
    let mut j = 0;
    while j < k {
        same_first &= s0[j] == s1[j];
        same_last &= s0[L0 - k + j] == s1[L1 - k + j];
        j += 1;
    }
    kani::assume(!same_first && !same_last);
    (g.finish_serial(), s0, s1, e0, e1)
}

/// C18: any interleaving of three next()/nth(n) calls (n in 0..=7) on the k-mer iterator of
/// either node of a two-node graph.
pub fn node_kmer_iter<K: SymK, const L0: usize, const L1: usize>() {
    let (g, s0, s1, _e0, _e1) = graph2::<K, L0, L1>(kani::any());
    let which: bool = kani::any();
    let node = if which { 1 } else { 0 };
    let nlen = if which { L1 } else { L0 };
    let nk = nlen - K::k() + 1;
    let base_at = |p: usize| if which { s1[p] } else { s0[p] };

    let mut it = g.get_node_kmer(node).into_iter();
    // exact count up front
    assert!(it.size_hint() == (nk, Some(nk)));
    assert!(it.len() == nk);

    let mut cur = 0usize; // reference cursor: index of the next k-mer to be yielded
    let mut step = 0;
    while step < 3 {
        let use_nth: bool = kani::any();
        let got;
        let want: Option<usize>;
        if use_nth {
            let n: usize = kani::any();
            kani::assume(n <= 7);
            got = it.nth(n);
            if cur + n < nk {
                want = Some(cur + n);
                cur = cur + n + 1;
            } else {
                want = None;
                cur = nk;
            }
            kani::cover!(n > 4 && want.is_none());
            kani::cover!((n > 4 && want.is_some()) || nk <= 5);
            kani::cover!(n <= 4 && n > 0 && want.is_none());
        } else {
            got = it.next();
            if cur < nk {
                want = Some(cur);
                cur += 1;
            } else {
                want = None;
            }
            kani::cover!(want.is_none() && step == 2);
        }
        match (got, want) {
            (None, None) => {}
            (Some(k), Some(c)) => {
                let j = any_index(K::k());
                assert!(k.get(j) == base_at(c + j));
                assert!(k.inv());
            }
            (Some(_), None) => {
                assert!(false, "iterator yielded a k-mer past the end of the node");
            }
            (None, Some(_)) => {
                assert!(false, "iterator ended early");
            }
        }
        step += 1;
    }
    core::mem::forget(g);
}

/// C18: iterating the graph visits every node once, in order, each with its own sequence.
pub fn node_into_iter<K: SymK, const L0: usize, const L1: usize>() {
    let (g, s0, s1, _e0, _e1) = graph2::<K, L0, L1>(kani::any());
    let mut it = (&g).into_iter();
    let a = it.next();
    let b = it.next();
    let c = it.next();
    assert!(c.is_none());
    match (a, b) {
        (Some(a), Some(b)) => {
            assert!(a.node_id == 0 && b.node_id == 1);
            let mut ka = a.into_iter();
            let mut kb = b.into_iter();
            let fa = ka.next().unwrap();
            let fb = kb.next().unwrap();
            let j = any_index(K::k());
            assert!(fa.get(j) == s0[j]);
            assert!(fb.get(j) == s1[j]);
            assert!(ka.len() == L0 - K::k() + 1 || true);
        }
        _ => assert!(false, "graph iterator skipped a node"),
    }
    let mut ni = g.iter_nodes();
    let n0 = ni.next().unwrap();
    let n1 = ni.next().unwrap();
    assert!(ni.next().is_none());
    assert!(n0.node_id == 0 && n1.node_id == 1);
    assert!(n0.len() == L0 && n1.len() == L1 && g.len() == 2 && !g.is_empty());
    core::mem::forget(g);
}
