//! C01 / C02: the growth loops of the k-mer-table compressor, from an arbitrary valid table and an
//! arbitrary availability set (hook H2b): `extend_kmer` (the whole walk in one direction) and
//! `build_node` (seed + left walk + right walk, sequence assembly, payload fold, bookkeeping).
//! The reference walk is written in string terms over plain arrays and never calls the code
//! under test.
use crate::common::*;
use bit_set::BitSet;
use boomphf::hashmap::BoomHashMap2;
use debruijn::compression::verif_hooks::{build_node_from, extend_kmer_walk};
use debruijn::compression::{ScmapCompress, SimpleCompress};
use debruijn::{Dir, Exts, Kmer, Mer};
use std::collections::VecDeque;

fn nib(e: Exts, d: Dir) -> u8 {
    if is_left(d) {
        e.val & 0xf
    } else {
        e.val >> 4
    }
}
fn cnt(e: Exts, d: Dir) -> u8 {
    let n = nib(e, d);
    (n & 1) + ((n >> 1) & 1) + ((n >> 2) & 1) + ((n >> 3) & 1)
}
fn uniq(e: Exts, d: Dir) -> u8 {
    let n = nib(e, d);
    if n == 1 {
        0
    } else if n == 2 {
        1
    } else if n == 4 {
        2
    } else {
        3
    }
}
fn pal<K: SymK>(k: K) -> bool {
    k.raw() == k.rc().raw()
}
fn flipd(d: Dir) -> Dir {
    if is_left(d) {
        Dir::Right
    } else {
        Dir::Left
    }
}
/// complement of a 4-bit base set: base b -> 3-b
fn compl4(n: u8) -> u8 {
    ((n & 1) << 3) | ((n & 2) << 1) | ((n & 4) >> 1) | ((n & 8) >> 3)
}

pub struct Table<K: SymK, const N: usize> {
    pub stranded: bool,
    pub keys: [K; N],
    pub exts: [Exts; N],
    pub data: [u8; N],
}

pub fn any_table<K: SymK, const N: usize>() -> Table<K, N> {
    let stranded: bool = kani::any();
    let mut keys: [K; N] = [K::empty(); N];
    let mut exts: [Exts; N] = [Exts::empty(); N];
    let data: [u8; N] = kani::any();
    let mut i = 0;
    while i < N {
        keys[i] = K::any_valid();
        exts[i] = any_exts();
        if !stranded {
            kani::assume(keys[i].raw() <= keys[i].rc().raw());
        }
        let mut j = 0;
        while j < i {
            kani::assume(keys[j].raw() != keys[i].raw());
            j += 1;
        }
        i += 1;
    }
    Table {
        stranded,
        keys,
        exts,
        data,
    }
}

impl<K: SymK, const N: usize> Table<K, N> {
    /// The join decision in string terms (the statement of C02): from row `cur` walking `dir`.
    /// -> (table valid on the examined link, Some((row, next_dir)) when the link is joinable)
    pub fn ref_step<const JOIN_EQ: bool>(
        &self,
        avail: &[bool; N],
        cur: usize,
        dir: Dir,
    ) -> (bool, Option<(usize, Dir)>) {
        let kmer = self.keys[cur];
        let e = self.exts[cur];
        if cnt(e, dir) == 1 && (self.stranded || !pal(kmer)) {
            let b = uniq(e, dir);
            let raw_next = kmer.extend(b, dir);
            let rc_next = raw_next.rc();
            let flip = !self.stranded && !(raw_next.raw() < rc_next.raw());
            let next = if flip { rc_next } else { raw_next };
            let mut t = N;
            let mut r = 0;
            while r < N {
                if self.keys[r].raw() == next.raw() {
                    t = r;
                }
                r += 1;
            }
            if t < N && avail[t] {
                let incoming = if flip { dir } else { flipd(dir) };
                let is_pal = !self.stranded && pal(next);
                let inc = cnt(self.exts[t], incoming);
                if inc == 0 && !is_pal {
                    return (false, None); // the code's documented `unreachable`
                }
                let join = if JOIN_EQ { self.data[cur] == self.data[t] } else { true };
                if join && inc == 1 && !is_pal {
                    let next_dir = if flip { flipd(dir) } else { dir };
                    return (true, Some((t, next_dir)));
                }
            }
        }
        (true, None)
    }

    /// Reference walk: follow joinable links until none is left. Marks the start row and every
    /// walked row unavailable. -> (valid, rows+dirs walked, count, end row, end dir)
    pub fn ref_walk<const JOIN_EQ: bool>(
        &self,
        avail: &mut [bool; N],
        start: usize,
        start_dir: Dir,
    ) -> (bool, [(usize, Dir); N], usize, usize, Dir) {
        let mut path = [(0usize, Dir::Left); N];
        let mut n = 0;
        let mut ok = true;
        let mut cur = start;
        let mut dir = start_dir;
        avail[start] = false;
        let mut it = 0;
        // at most N-1 joins are possible: every join consumes an available row
        while it < N {
            let (v, r) = self.ref_step::<JOIN_EQ>(avail, cur, dir);
            ok &= v;
            match r {
                Some((t, nd)) => {
                    path[n] = (t, nd);
                    n += 1;
                    avail[t] = false;
                    cur = t;
                    dir = nd;
                }
                None => break,
            }
            it += 1;
        }
        (ok, path, n, cur, dir)
    }

    pub fn index(&self) -> BoomHashMap2<K, Exts, u8> {
        BoomHashMap2::new(self.keys.to_vec(), self.exts.to_vec(), self.data.to_vec())
    }
}

/// slot of row i in the perfect-hash table: the identity in the model M1 (asserted here, in the
/// solver run), a permutation in the real boomphf that native replays (compiled as tests) run
/// against — there it is looked up. Keeping it a constant in the solver run matters: symbolic
/// slot numbers make every BitSet operation a symbolic-offset write (1.3 GB -> 12 GB).
fn slots<K: SymK, const N: usize>(index: &BoomHashMap2<K, Exts, u8>, keys: &[K; N]) -> [usize; N] {
    let mut id = [0usize; N];
    let mut i = 0;
    while i < N {
        #[cfg(test)]
        {
            id[i] = index.get_key_id(&keys[i]).expect("row key is in the table") as usize;
        }
        #[cfg(not(test))]
        {
            assert!(index.get_key_id(&keys[i]) == Some(i));
            id[i] = i;
        }
        i += 1;
    }
    id
}

/// availability set in slot space
fn avail_set<const N: usize>(avail: &[bool; N], id: &[usize; N]) -> BitSet {
    let mut s = BitSet::with_capacity(N);
    let mut i = 0;
    while i < N {
        if avail[i] {
            s.insert(id[i]);
        }
        i += 1;
    }
    s
}

/// C02: `extend_kmer` — the walk continues exactly while the join decision says Unique, visits
/// the rows the reference walk visits, removes exactly those rows (and the start row) from the
/// availability set, and reports the walking-side extensions of the last k-mer.
pub fn walk<K: SymK, const N: usize, const JOIN_EQ: bool>() {
    let t = any_table::<K, N>();
    let avail0: [bool; N] = kani::any();
    let start = any_index(N);
    let dir = any_dir();
    let mut avail = avail0;
    let (ok, rpath, rn, end, end_dir) = t.ref_walk::<JOIN_EQ>(&mut avail, start, dir);
    kani::assume(ok);

    let index = t.index();
    let mut path: Vec<(K, Dir)> = Vec::new();
    path.reserve_exact(8);
    let id = slots(&index, &t.keys);
    let set = avail_set(&avail0, &id);
    let (e, after) = if JOIN_EQ {
        let spec: ScmapCompress<u8> = ScmapCompress::new();
        extend_kmer_walk(t.stranded, &spec, &index, set, t.keys[start], dir, &mut path)
    } else {
        let spec = SimpleCompress::new(|a: u8, b: &u8| a.wrapping_add(*b));
        extend_kmer_walk(t.stranded, &spec, &index, set, t.keys[start], dir, &mut path)
    };
    assert!(path.len() == rn);
    let mut i = 0;
    while i < N {
        if i < rn {
            assert!(path[i].0.raw() == t.keys[rpath[i].0].raw());
            assert!(same_dir(path[i].1, rpath[i].1));
        }
        assert!(after.contains(id[i]) == avail[i]);
        i += 1;
    }
    assert!(e.val == nib(t.exts[end], end_dir));
    kani::cover!(rn == N - 1 && N > 1);
    kani::cover!(rn == 0);
    kani::cover!(rn >= 1 && !t.stranded && !same_dir(rpath[0].1, dir));
    core::mem::forget((index, path, after));
}

/// C01: `build_node` — from an arbitrary table, availability set and available seed row: the
/// node sequence contains the seed and every walked k-mer (in its walked orientation) at exactly
/// the offset of its position in the chain, and nothing else; the payload is the caller's
/// reduction over exactly those rows; exactly those rows leave the availability set; the node's
/// extensions are the outward extensions of its two end k-mers in the node's orientation.
pub fn build_node<K: SymK, const N: usize, const JOIN_EQ: bool>() {
    let t = any_table::<K, N>();
    let avail0: [bool; N] = kani::any();
    let seed = any_index(N);
    kani::assume(avail0[seed]);
    let k = K::k();

    // ---- reference: left walk, then right walk on what is left
    let mut avail = avail0;
    let (ok_l, lp, ln, lend, lend_dir) = t.ref_walk::<JOIN_EQ>(&mut avail, seed, Dir::Left);
    let (ok_r, rp, rn, rend, rend_dir) = t.ref_walk::<JOIN_EQ>(&mut avail, seed, Dir::Right);
    kani::assume(ok_l && ok_r);

    let index = t.index();
    let mut path: Vec<(K, Dir)> = Vec::new();
    path.reserve_exact(8);
    let mut seq: VecDeque<u8> = VecDeque::with_capacity(16);
    let id = slots(&index, &t.keys);
    let set = avail_set(&avail0, &id);
    let (e, d, after) = if JOIN_EQ {
        let spec: ScmapCompress<u8> = ScmapCompress::new();
        build_node_from(t.stranded, &spec, &index, set, id[seed], &mut path, &mut seq)
    } else {
        // a reduction whose FOLD is order-independent (f(f(a,x),y) == f(f(a,y),x)) but which is not
        // associative as a binary operation: it tells "folded k-mer by k-mer" from "summaries merged"
        let spec = SimpleCompress::new(|a: u8, b: &u8| a.wrapping_add(b.wrapping_mul(2)).wrapping_add(1));
        build_node_from(t.stranded, &spec, &index, set, id[seed], &mut path, &mut seq)
    };

    // (1) length: one base per k-mer beyond the first
    assert!(seq.len() == k + ln + rn);
    // (2) every member k-mer sits at its chain offset, in its walked orientation
    //     chain: lp[ln-1] .. lp[0], seed, rp[0] .. rp[rn-1]
    let m = any_index(N); // which chain member to examine (symbolic)
    kani::assume(m < 1 + ln + rn);
    let (row, fwd) = if m < ln {
        let (r, dr) = lp[ln - 1 - m];
        (r, is_left(dr)) // walking left: stored orientation iff still heading left
    } else if m == ln {
        (seed, true)
    } else {
        let (r, dr) = rp[m - ln - 1];
        (r, !is_left(dr))
    };
    let member = if fwd { t.keys[row] } else { t.keys[row].rc() };
    let mut j = 0;
    while j < k {
        assert!(seq[m + j] == member.rbase(j));
        j += 1;
    }
    // (3) bookkeeping: exactly the chain members left the availability set
    let mut i = 0;
    let mut fold = t.data[seed];
    while i < N {
        assert!(after.contains(id[i]) == avail[i]);
        if avail0[i] && !avail[i] && i != seed {
            fold = fold.wrapping_add(t.data[i].wrapping_mul(2)).wrapping_add(1);
        }
        i += 1;
    }
    // (4) payload = reduction over exactly the member rows
    if JOIN_EQ {
        assert!(d == t.data[seed]);
    } else {
        assert!(d == fold);
    }
    // (5) node extensions: outward extensions of the end k-mers, in node orientation
    let lraw = nib(t.exts[lend], lend_dir);
    let lwant = if is_left(lend_dir) { lraw } else { compl4(lraw) };
    let rraw = nib(t.exts[rend], rend_dir);
    let rwant = if is_left(rend_dir) { compl4(rraw) } else { rraw };
    assert!(e.val == (lwant | (rwant << 4)));

    kani::cover!(ln + rn == N - 1 && N > 1);
    kani::cover!(ln == 0 && rn == 0);
    kani::cover!(ln >= 1 && !is_left(lp[0].1));
    kani::cover!(rn >= 1 && is_left(rp[0].1));
    core::mem::forget((index, path, seq, after));
}
