//! C17 (and the Lmer clauses of C12/C13): fixed-size DNA strings.
use crate::common::*;
use crate::kmer_ops::Rec;
use debruijn::vmer::{Array, Lmer};
use debruijn::{Kmer, Mer, MerImmut, Vmer};
use std::hash::Hash;

pub trait LArr: Array<Item = u64> + Copy + Eq + Ord + Hash {}
impl<T: Array<Item = u64> + Copy + Eq + Ord + Hash> LArr for T {}

/// INV_L: stored length <= max_len and every bit that is neither an addressed base nor the
/// length byte is zero.
pub fn inv<const N: usize>(raw: &[u64; N]) -> bool {
    let len = (raw[N - 1] & 0xff) as usize;
    if len > 32 * N - 4 {
        return false;
    }
    let mut w = 0;
    while w < N {
        let lo = w * 32;
        let used = if len <= lo { 0 } else if len - lo >= 32 { 32 } else { len - lo };
        let mut mask: u64 = if used == 32 { 0 } else { (!0u64) >> (2 * used) };
        if w == N - 1 {
            mask &= !0xffu64;
        }
        if raw[w] & mask != 0 {
            return false;
        }
        w += 1;
    }
    true
}

pub fn rbase<const N: usize>(raw: &[u64; N], pos: usize) -> u8 {
    ((raw[pos / 32] >> (62 - 2 * (pos % 32))) & 3) as u8
}

pub fn any_lmer<const N: usize>() -> Lmer<[u64; N]>
where
    [u64; N]: LArr,
{
    let raw: [u64; N] = kani::any();
    kani::assume(inv(&raw));
    Lmer::verif_from_raw(raw)
}

/// `new(len)`: reports len, all A, INV_L — for every len in 0..=max_len.
pub fn new<const N: usize>()
where
    [u64; N]: LArr,
{
    let len: usize = kani::any();
    kani::assume(len <= 32 * N - 4);
    assert!(<Lmer<[u64; N]> as Vmer>::max_len() == 32 * N - 4);
    let l = <Lmer<[u64; N]> as Vmer>::new(len);
    assert!(l.len() == len);
    assert!(l.is_empty() == (len == 0));
    assert!(inv(l.verif_raw()));
    if len > 0 {
        let i = any_index(len);
        assert!(l.get(i) == 0);
    }
    kani::cover!(len == 32 * N - 4);
    kani::cover!(len == 0);
}

/// `get` reads the documented layout; `set_mut`/`set` change exactly one base.
pub fn get_set<const N: usize>()
where
    [u64; N]: LArr,
{
    let l = any_lmer::<N>();
    let raw = *l.verif_raw();
    let len = l.len();
    assert!(len == (raw[N - 1] & 0xff) as usize);
    kani::assume(len > 0);
    let i = any_index(len);
    let j = any_index(len);
    let b = any_base();
    assert!(l.get(j) == rbase(&raw, j));
    let mut m = l;
    m.set_mut(i, b);
    assert!(m.len() == len);
    assert!(m.get(j) == if j == i { b } else { l.get(j) });
    assert!(inv(m.verif_raw()));
    assert!(l.set(i, b) == m);
    kani::cover!(i / 32 == N - 1 && b == 3);
    kani::cover!(i == 0 && j == len - 1 && len == 32 * N - 4);
}

/// `set_slice_mut(pos, n, value)`: exactly the addressed bases change, never the length.
pub fn set_slice<const N: usize>()
where
    [u64; N]: LArr,
{
    let l = any_lmer::<N>();
    let len = l.len();
    let pos: usize = kani::any();
    let n: usize = kani::any();
    kani::assume(n >= 1 && n <= 32 && pos < len && pos + n <= len);
    let value: u64 = kani::any();
    let j = any_index(len);
    let mut m = l;
    m.set_slice_mut(pos, n, value);
    let expect = if j >= pos && j < pos + n {
        ((value >> (62 - 2 * (j - pos))) & 3) as u8
    } else {
        l.get(j)
    };
    assert!(m.len() == len);
    assert!(m.get(j) == expect);
    assert!(inv(m.verif_raw()));
    assert!(l.set_slice(pos, n, value) == m);
    // run crosses a word boundary
    kani::cover!(N == 1 || pos / 32 != (pos + n - 1) / 32);
    // run touches the word that holds the length byte
    kani::cover!((pos + n - 1) / 32 == N - 1 && pos + n == len);
    kani::cover!(n == 32 || (N == 1 && n == 28));
    kani::cover!(n == 1 && (value << 2) != 0);
}

/// C12: reverse complement is positional, an involution, keeps length and INV_L.
pub fn rc<const N: usize>()
where
    [u64; N]: LArr,
{
    let l = any_lmer::<N>();
    let len = l.len();
    let r = l.rc();
    assert!(r.len() == len);
    assert!(inv(r.verif_raw()));
    if len > 0 {
        let j = any_index(len);
        assert!(r.get(j) == 3 - l.get(len - 1 - j));
    }
    assert!(r.rc() == l);
    kani::cover!(len == 32 * N - 4);
    kani::cover!(len == 0);
    kani::cover!(len == 33 || N == 1);
}

/// Equality and hashing agree with (length, bases).
pub fn eq_hash<const N: usize>()
where
    [u64; N]: LArr,
{
    let a = any_lmer::<N>();
    let b = any_lmer::<N>();
    let mut same = a.len() == b.len();
    let mut i = 0;
    while i < 32 * N - 4 {
        if i < a.len() && i < b.len() && a.get(i) != b.get(i) {
            same = false;
        }
        i += 1;
    }
    assert!((a == b) == same);
    let mut ha = Rec::new();
    let mut hb = Rec::new();
    a.hash(&mut ha);
    b.hash(&mut hb);
    assert!(ha.n == hb.n);
    if same {
        let j = any_index(64);
        assert!(ha.buf[j] == hb.buf[j]);
    }
    kani::cover!(same && a.len() > 20);
    kani::cover!(!same && a.len() == b.len());
}

/// `from_slice`: length and bases of the source, INV_L.
pub fn from_slice<const N: usize, const L: usize>()
where
    [u64; N]: LArr,
{
    let src: [u8; L] = kani::any();
    let len: usize = kani::any();
    kani::assume(len <= L && len <= 32 * N - 4);
    let mut i = 0;
    while i < L {
        kani::assume(src[i] < 4);
        i += 1;
    }
    let l = <Lmer<[u64; N]> as Vmer>::from_slice(&src[..len]);
    assert!(l.len() == len);
    assert!(inv(l.verif_raw()));
    if len > 0 {
        let j = any_index(len);
        assert!(l.get(j) == src[j]);
    }
    kani::cover!(len == L);
}

/// C13/C17: k-mer extraction from an Lmer at every position.
pub fn get_kmer<K: SymK, const N: usize>()
where
    [u64; N]: LArr,
{
    let l = any_lmer::<N>();
    let len = l.len();
    kani::assume(len >= K::k());
    let pos: usize = kani::any();
    kani::assume(pos <= len - K::k());
    let j = any_index(K::k());
    let k: K = l.get_kmer(pos);
    assert!(k.get(j) == l.get(pos + j));
    assert!(k.inv());
    if pos == 0 {
        assert!(l.first_kmer::<K>() == k);
    }
    if pos == len - K::k() {
        assert!(l.last_kmer::<K>() == k);
    }
    kani::cover!(pos % 32 + K::k() > 32 || N == 1 || K::k() == 1);
    kani::cover!(pos + K::k() == len && len == 32 * N - 4);
}
