//! Stubs (each is part of every claim that uses it; listed in the evidence).

/// S1: `Vec::with_capacity(c)` -> `Vec::new()` + `reserve_exact(CONCRETE)`.
/// Capacity is unobservable; a symbolic capacity makes CBMC's heap model explode.
pub fn vec_with_capacity<T>(_capacity: usize) -> Vec<T> {
    let mut v = Vec::new();
    v.reserve_exact(8);
    v
}

/// S2: formatting on panic/println paths -> empty string.
pub fn fmt_format(_args: core::fmt::Arguments<'_>) -> String {
    String::new()
}

/// S4: `Formatter::pad(s)` -> `write_str(s)`. Exact for `{}` without width/precision (the only
/// way the code under test uses it); avoids char-counting loops over a symbolic-length string.
pub fn fmt_pad<'a>(f: &mut core::fmt::Formatter<'a>, s: &str) -> core::fmt::Result
where
    'a: 'a,
{
    f.write_str(s)
}
