//! Stubs (each is part of every claim that uses it; listed in the evidence).

/// S1: `Vec::with_capacity(c)` -> `Vec::new()` + `reserve_exact(CONCRETE)`.
/// Capacity is unobservable; a symbolic capacity makes CBMC's heap model explode.
pub fn vec_with_capacity<T>(_capacity: usize) -> Vec<T> {
    let mut v = Vec::new();
    v.reserve_exact(8);
    v
}

/// S2: formatting on panic/println paths -> empty string.
pub fn fmt_format(_args: core::fmt::Arguments<'_>) -> String {
    String::new()
}
