//! Stubs (each is part of every claim that uses it; listed in the evidence).

/// S1: `Vec::with_capacity(c)` -> `Vec::new()` + `reserve_exact(CONCRETE)`.
/// Capacity is unobservable; a symbolic capacity makes CBMC's heap model explode.
pub fn vec_with_capacity<T>(_capacity: usize) -> Vec<T> {
    let mut v = Vec::new();
    v.reserve_exact(8);
    v
}

/// S2: formatting on panic/println paths -> empty string.
pub fn fmt_format(_args: core::fmt::Arguments<'_>) -> String {
    String::new()
}

/// S4: `Formatter::pad(s)` -> `write_str(s)`. Exact for `{}` without width/precision (the only
/// way the code under test uses it); avoids char-counting loops over a symbolic-length string.
pub fn fmt_pad<'a>(f: &mut core::fmt::Formatter<'a>, s: &str) -> core::fmt::Result
where
    'a: 'a,
{
    f.write_str(s)
}

/// S5: `String::push(c)` -> push of the single byte `c`, with the precondition that only ASCII is
/// pushed *asserted* (so the stub is exact whenever the harness verifies). The real `push` encodes
/// a symbolic `char` as 1-4 bytes, which makes the string length symbolic.
pub fn string_push_ascii(s: &mut String, c: char) {
    assert!((c as u32) < 128, "S5 precondition: only ASCII characters are pushed");
    unsafe { s.as_mut_vec().push(c as u8) }
}

/// S6: `VecDeque::grow` -> unreachable (asserted). The harness hands the code a deque whose
/// capacity (unobservable) already exceeds every length it can reach inside the bound, so growth
/// never happens; the assertion makes the stub exact whenever the harness verifies. The real
/// `grow` (realloc + wrap-around fix-up) is otherwise instantiated at every unwound push.
pub fn vecdeque_grow<T, A: core::alloc::Allocator>(_d: &mut std::collections::VecDeque<T, A>) {
    assert!(false, "S6 precondition: the pre-reserved deque never grows");
}

/// S7: `SmallVec::reserve_one_unchecked` (the spill to the heap) -> unreachable (asserted).
/// Edge lists hold at most four entries per node side (one per base), which is the inline
/// capacity of `SmallVec4`; the assertion makes the stub exact whenever the harness verifies.
pub fn smallvec_reserve_one<A: smallvec::Array>(_v: &mut smallvec::SmallVec<A>) {
    assert!(false, "S7 precondition: the inline capacity of the edge list is never exceeded");
}
