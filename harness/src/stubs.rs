//! Stubs (each is part of every claim that uses it; listed in the evidence).

/// S1: `Vec::with_capacity(c)` -> `Vec::new()` + `reserve_exact(CONCRETE)`.
/// Capacity is unobservable; a symbolic capacity makes CBMC's heap model explode.
pub fn vec_with_capacity<T>(_capacity: usize) -> Vec<T> {
    let mut v = Vec::new();
    v.reserve_exact(8);
    v
}

/// S2: formatting on panic/println paths -> empty string.
pub fn fmt_format(_args: core::fmt::Arguments<'_>) -> String {
    String::new()
}

/// S4: `Formatter::pad(s)` -> `write_str(s)`. Exact for `{}` without width/precision (the only
/// way the code under test uses it); avoids char-counting loops over a symbolic-length string.
pub fn fmt_pad<'a>(f: &mut core::fmt::Formatter<'a>, s: &str) -> core::fmt::Result
where
    'a: 'a,
{
    f.write_str(s)
}

/// S5: `String::push(c)` -> push of the single byte `c`, with the precondition that only ASCII is
/// pushed *asserted* (so the stub is exact whenever the harness verifies). The real `push` encodes
/// a symbolic `char` as 1-4 bytes, which makes the string length symbolic.
pub fn string_push_ascii(s: &mut String, c: char) {
    assert!((c as u32) < 128, "S5 precondition: only ASCII characters are pushed");
    unsafe { s.as_mut_vec().push(c as u8) }
}

/// S6: `VecDeque::grow` -> unreachable (asserted). The harness hands the code a deque whose
/// capacity (unobservable) already exceeds every length it can reach inside the bound, so growth
/// never happens; the assertion makes the stub exact whenever the harness verifies. The real
/// `grow` (realloc + wrap-around fix-up) is otherwise instantiated at every unwound push.
pub fn vecdeque_grow<T, A: core::alloc::Allocator>(_d: &mut std::collections::VecDeque<T, A>) {
    assert!(false, "S6 precondition: the pre-reserved deque never grows");
}

/// S7: `SmallVec::reserve_one_unchecked` (the spill to the heap) -> unreachable (asserted).
/// Edge lists hold at most four entries per node side (one per base), which is the inline
/// capacity of `SmallVec4`; the assertion makes the stub exact whenever the harness verifies.
pub fn smallvec_reserve_one<A: smallvec::Array>(_v: &mut smallvec::SmallVec<A>) {
    assert!(false, "S7 precondition: the inline capacity of the edge list is never exceeded");
}

/// S8: `<usize as Display>::fmt` -> one decimal digit written as a CONCRETE literal per case
/// (`value < 8` asserted inside the stub, so the stub is exact whenever the harness verifies).
/// Exact for `{}` without flags or width, the only way the exporters render integers. Two reasons:
/// the real implementation divides a symbolic 64-bit value by 10000/100 in a loop (13 GB for one
/// `{}` in CBMC); and handing the oracle sink a *symbolic* byte makes every branch of its byte
/// classifier live (is it a newline? a quote?), whereas a case split hands it constants.
pub fn fmt_usize(v: &usize, f: &mut core::fmt::Formatter<'_>) -> core::fmt::Result {
    let v = *v;
    assert!(v < 8, "S8 precondition: only integers below 8 are rendered inside the bound");
    if v == 0 {
        f.write_str("0")
    } else if v == 1 {
        f.write_str("1")
    } else if v == 2 {
        f.write_str("2")
    } else if v == 3 {
        f.write_str("3")
    } else if v == 4 {
        f.write_str("4")
    } else if v == 5 {
        f.write_str("5")
    } else if v == 6 {
        f.write_str("6")
    } else {
        f.write_str("7")
    }
}

/// S4b: `Formatter::pad(s)` -> `s` written byte by byte, each byte as a CONCRETE one-byte literal
/// chosen by a case split over the alphabet the exporters render through `{}` of a string
/// (`ACGT`, `+`, `-`, `L`, `R`); length <= 8 and membership are asserted inside the stub. Exact
/// for `{}` without width/precision whenever the harness verifies.
pub fn fmt_pad_split<'a>(f: &mut core::fmt::Formatter<'a>, s: &str) -> core::fmt::Result
where
    'a: 'a,
{
    let b = s.as_bytes();
    assert!(b.len() <= 8, "S4b precondition: strings of at most 8 bytes");
    pad_one(f, b, 0)?;
    pad_one(f, b, 1)?;
    pad_one(f, b, 2)?;
    pad_one(f, b, 3)?;
    pad_one(f, b, 4)?;
    pad_one(f, b, 5)?;
    pad_one(f, b, 6)?;
    pad_one(f, b, 7)
}
#[inline(always)]
fn pad_one(f: &mut core::fmt::Formatter<'_>, b: &[u8], i: usize) -> core::fmt::Result {
    if i >= b.len() {
        return Ok(());
    }
    let c = b[i];
    if c == b'A' {
        f.write_str("A")
    } else if c == b'C' {
        f.write_str("C")
    } else if c == b'G' {
        f.write_str("G")
    } else if c == b'T' {
        f.write_str("T")
    } else if c == b'+' {
        f.write_str("+")
    } else if c == b'-' {
        f.write_str("-")
    } else if c == b'L' {
        f.write_str("L")
    } else if c == b'R' {
        f.write_str("R")
    } else {
        assert!(false, "S4b precondition: only ACGT+-LR are rendered through Display of a string");
        Ok(())
    }
}

