//! Exts algebra (C12 extension-set clause; used by C03/C05/C08): all 256 values.
use crate::common::*;
use debruijn::dna_string::DnaString;
use debruijn::{Dir, Exts, Kmer, Mer};

/// reference: bit (dir, base) of the documented layout "T G C A | T G C A" = right | left
fn rbit(e: Exts, d: Dir, b: u8) -> bool {
    let sh = b + if is_left(d) { 0 } else { 4 };
    (e.val >> sh) & 1 == 1
}

/// C12: rc / complement / reverse of an extension set; involution.
pub fn rc() {
    let e = any_exts();
    let d = any_dir();
    let b = any_base();
    assert!(e.has_ext(d, b) == rbit(e, d, b));
    assert!(e.rc().has_ext(d, b) == rbit(e, d.flip(), 3 - b));
    assert!(e.complement().has_ext(d, b) == rbit(e, d, 3 - b));
    assert!(e.reverse().has_ext(d, b) == rbit(e, d.flip(), b));
    assert!(e.rc().rc() == e);
    assert!(e.complement().complement() == e);
    assert!(e.reverse().reverse() == e);
    kani::cover!(e.has_ext(d, b) && !e.rc().has_ext(d, b));
    kani::cover!(e.val == 0xff);
}

/// C12: coherence of Exts::rc with k-mer rc: following extension (d,b) from k and then
/// reverse-complementing equals following (flip d, 3-b) from rc(k).
pub fn rc_kmer<K: SymK>() {
    let k = K::any_valid();
    let d = any_dir();
    let b = any_base();
    assert!(k.extend(b, d).rc() == k.rc().extend(3 - b, d.flip()));
    kani::cover!(is_left(d) && b == 2);
}

/// The accessors and constructors used everywhere else.
pub fn algebra() {
    let e = any_exts();
    let f = any_exts();
    let d = any_dir();
    let b = any_base();
    let c = any_base();
    // counting
    let mut n = 0u8;
    let mut uniq = 4u8;
    let mut i = 0u8;
    while i < 4 {
        if rbit(e, d, i) {
            n += 1;
            if uniq == 4 {
                uniq = i;
            }
        }
        i += 1;
    }
    assert!(e.num_ext_dir(d) == n);
    assert!(e.num_exts_l() == e.num_ext_dir(Dir::Left));
    assert!(e.num_exts_r() == e.num_ext_dir(Dir::Right));
    assert!(e.get_unique_extension(d) == if n == 1 { Some(uniq) } else { None });
    // single_dir moves the chosen side into the *left* nibble and clears the other
    let s = e.single_dir(d);
    assert!(rbit(s, Dir::Left, b) == rbit(e, d, b));
    assert!(!rbit(s, Dir::Right, b));
    // set
    let g = e.set(d, c);
    assert!(rbit(g, d, b) == (rbit(e, d, b) || b == c));
    assert!(rbit(g, d.flip(), b) == rbit(e, d.flip(), b));
    // add = union, merge = left of first + right of second
    assert!(rbit(e.add(f), d, b) == (rbit(e, d, b) || rbit(f, d, b)));
    let m = Exts::merge(e, f);
    assert!(rbit(m, Dir::Left, b) == rbit(e, Dir::Left, b));
    assert!(rbit(m, Dir::Right, b) == rbit(f, Dir::Right, b));
    // from_single_dirs takes the left nibble of each argument
    let fs = Exts::from_single_dirs(e, f);
    assert!(rbit(fs, Dir::Left, b) == rbit(e, Dir::Left, b));
    assert!(rbit(fs, Dir::Right, b) == rbit(f, Dir::Left, b));
    // one-hot makers
    assert!(rbit(Exts::mk_left(c), Dir::Left, b) == (b == c));
    assert!(Exts::mk_left(c).num_exts_r() == 0);
    assert!(rbit(Exts::mk_right(c), Dir::Right, b) == (b == c));
    assert!(Exts::mk_right(c).num_exts_l() == 0);
    let k = Exts::mk(c, b);
    assert!(k.get_unique_extension(Dir::Left) == Some(c));
    assert!(k.get_unique_extension(Dir::Right) == Some(b));
    assert!(Exts::empty().val == 0 && Exts::new(e.val) == e);
    kani::cover!(n == 1 && uniq == 3);
    kani::cover!(n == 4);
    kani::cover!(n == 0);
}

/// `Exts::get` lists the set bases in ascending order.
pub fn get_list() {
    let e = any_exts();
    let d = any_dir();
    let v = e.get(d);
    let mut n = 0usize;
    let mut i = 0u8;
    while i < 4 {
        if rbit(e, d, i) {
            assert!(n < v.len() && v[n] == i);
            n += 1;
        }
        i += 1;
    }
    assert!(v.len() == n);
    kani::cover!(n == 3);
    core::mem::forget(v);
}

/// C08: boundary extensions of a piece are exactly the flanking bases, none at a read end.
pub fn from_slice_bounds<const N: usize>() {
    let src: [u8; N] = kani::any();
    let start: usize = kani::any();
    let length: usize = kani::any();
    kani::assume(start <= N && length <= N && start + length <= N);
    let mut i = 0;
    while i < N {
        kani::assume(src[i] < 4);
        i += 1;
    }
    let e = Exts::from_slice_bounds(&src, start, length);
    let b = any_base();
    assert!(rbit(e, Dir::Left, b) == (start > 0 && src[start - 1] == b));
    assert!(rbit(e, Dir::Right, b) == (start + length < N && src[start + length] == b));
    kani::cover!(start == 0 && start + length == N);
    kani::cover!(start > 0 && start + length < N && length > 0);
}
