// Concrete counterexample for property C20, harness gen::c20_gfa__kmer3__l3
// values rebuilt from CBMC's text trace: cargo kani -Z stubbing -Z unstable-options --no-assertion-reach-checks --harness-timeout 3600s --output-format old --exact --target-dir /verif/target/replay --harness gen::c20_gfa__kmer3__l3 --cbmc-args --unwindset _RNvNtCs8xvirJzNMvV_4core3fmt5write.0:12 --trace --trace-show-function-calls --property 'export_ops::gfa::<debruijn::kmer::VarIntKmer<u8, debruijn::kmer::K3>, 1, 4>.assertion.22'
// replay: copy into /verif/harness/src/playback.rs, then cd /verif/replay && cargo kani playback -Z concrete-playback -- playback::kani_concrete_playback_c20_gfa__kmer3__l3_from_text_trace
#[test]
fn kani_concrete_playback_c20_gfa__kmer3__l3_from_text_trace() {
    let concrete_vals: Vec<Vec<u8>> = vec![
        vec![0],
        vec![0],
        vec![0],
        vec![3],
        vec![0],
        vec![3],
        vec![249],
        vec![1, 0, 0, 0, 0, 0, 0, 0],
        vec![1, 0, 0, 0, 0, 0, 0, 0],
    ];
    kani::concrete_playback_run(concrete_vals, crate::gen::c20_gfa__kmer3__l3);
}

/* native replay output (dev profile, real boomphf) — REPRODUCED:
:kani_concrete_playback_c20_gfa__kmer3__l3_from_text_trace' (27844) panicked at ../harness/src/export_ops.rs:237:9:
GFA omits an adjacency of the graph
stack backtrace:
   0: __rustc::rust_begin_unwind
             at /home/runner/.rustup/toolchains/nightly-2026-08-21-x86_64-unknown-linux-gnu/lib/rustlib/src/rust/library/std/src/panicking.rs:679:5
   1: core::panicking::panic_fmt
             at /home/runner/.rustup/toolchains/nightly-2026-08-21-x86_64-unknown-linux-gnu/lib/rustlib/src/rust/library/core/src/panicking.rs:80:14
   2: vreplay::export_ops::gfa::<debruijn::kmer::VarIntKmer<u8, debruijn::kmer::K3>, 1, 4>
             at ./../harness/src/export_ops.rs:237:9
   3: vreplay::gen::c20_gfa__kmer3__l3
             at ./../harness/src/gen.rs:1770:31
   4: <vreplay::gen::c20_gfa__kmer3__l3 as core::ops::function::Fn<()>>::call
             at /home/runner/.rustup/toolchains/nightly-2026-08-21-x86_64-unknown-linux-gnu/lib/rustlib/src/rust/library/core/src/ops/function.rs:79:5
   5: kani::concrete_playback::concrete_playback_run::<vreplay::gen::c20_gfa__kmer3__l3>
             at /home/runner/work/kani/kani/library/kani/src/concrete_playback.rs:26:5
   6: vreplay::playback::kani_concrete_playback_c20_gfa__kmer3__l3_from_text_trace
             at ./../harness/src/playback.rs:15:5
   7: vreplay::playback::kani_concrete_playback_c20_gfa__kmer3__l3_from_text_trace::{closure#0}
             at ./../harness/src/playback.rs:3:63
   8: <vreplay::playback::kani_concrete_playback_c20_gfa__kmer3__l3_from_text_trace::{closure#0} as core::ops::function::FnOnce<()>>::call_once
             at /home/runner/.rustup/toolchains/nightly-2026-08-21-x86_64-unknown-linux-gnu/lib/rustlib/src/rust/library/core/src/ops/function.rs:250:5
   9: <fn() -> core::result::Result<(), alloc::string::String> as core::ops::function::FnOnce<()>>::call_once
             at /home/runner/.rustup/toolchains/nightly-2026-08-21-x86_64-unknown-linux-gnu/lib/rustlib/src/rust/library/core/src/ops/function.rs:250:5
note: Some details are omitted, run with `RUST_BACKTRACE=full` for a verbose backtrace.
test playback::kani_concrete_playback_c20_gfa__kmer3__l3_from_text_trace ... FAILED

failures:

failures:
    playback::kani_concrete_playback_c20_gfa__kmer3__l3_from_text_trace

test result: FAILED. 0 passed; 1 failed; 0 ignored; 0 measured; 0 filtered out; finished in 1.11s

error: test failed, to rerun pass `--lib`
error: /root/.kani/kani-0.68.0/toolchain/bin/cargo exited with status exit status: 101

*/
