// Concrete counterexample for property C20, harness gen::c20_json__kmer3__l3_4
// values rebuilt from CBMC's text trace: cargo kani -Z stubbing -Z unstable-options --no-assertion-reach-checks --harness-timeout 21600s --output-format old --exact --target-dir /verif/target/replay --harness gen::c20_json__kmer3__l3_4 --cbmc-args --unwindset _RNvNtCs8xvirJzNMvV_4core3fmt5write.0:12 --trace --trace-show-function-calls --property 'export_ops::JsonSink::<2, 4>::byte.assertion.5'
// replay: copy into /verif/harness/src/playback.rs, then cd /verif/replay && cargo kani playback -Z concrete-playback -- playback::kani_concrete_playback_c20_json__kmer3__l3_4_from_text_trace
#[test]
fn kani_concrete_playback_c20_json__kmer3__l3_4_from_text_trace() {
    let concrete_vals: Vec<Vec<u8>> = vec![
        vec![1],
        vec![0],
        vec![0],
        vec![0],
        vec![0],
        vec![0],
        vec![3],
        vec![255],
        vec![1],
        vec![2],
        vec![0],
        vec![0],
        vec![239],
    ];
    kani::concrete_playback_run(concrete_vals, crate::gen::c20_json__kmer3__l3_4);
}

/* native replay output (dev profile, real boomphf) — REPRODUCED:
-21-x86_64-unknown-linux-gnu/lib/rustlib/src/rust/library/core/src/fmt/mod.rs:1633:23
   7: <vreplay::export_ops::JsonSink<2, 4> as core::io::write::Write>::write_fmt
             at ./../harness/src/export_ops.rs:84:25
   8: <debruijn::graph::DebruijnGraph<debruijn::kmer::VarIntKmer<u8, debruijn::kmer::K3>, u8>>::to_json_rest::<vreplay::export_ops::JsonSink<2, 4>, vreplay::export_ops::json<debruijn::kmer::VarIntKmer<u8, debruijn::kmer::K3>, 2, 4>::{closure#0}>
             at /repo/src/graph.rs:671:9
   9: vreplay::export_ops::json::<debruijn::kmer::VarIntKmer<u8, debruijn::kmer::K3>, 2, 4>
             at ./../harness/src/export_ops.rs:425:9
  10: vreplay::gen::c20_json__kmer3__l3_4
             at ./../harness/src/gen.rs:1830:34
  11: <vreplay::gen::c20_json__kmer3__l3_4 as core::ops::function::Fn<()>>::call
             at /home/runner/.rustup/toolchains/nightly-2026-08-21-x86_64-unknown-linux-gnu/lib/rustlib/src/rust/library/core/src/ops/function.rs:79:5
  12: kani::concrete_playback::concrete_playback_run::<vreplay::gen::c20_json__kmer3__l3_4>
             at /home/runner/work/kani/kani/library/kani/src/concrete_playback.rs:26:5
  13: vreplay::playback::kani_concrete_playback_c20_json__kmer3__l3_4_from_text_trace
             at ./../harness/src/playback.rs:19:5
  14: vreplay::playback::kani_concrete_playback_c20_json__kmer3__l3_4_from_text_trace::{closure#0}
             at ./../harness/src/playback.rs:3:66
  15: <vreplay::playback::kani_concrete_playback_c20_json__kmer3__l3_4_from_text_trace::{closure#0} as core::ops::function::FnOnce<()>>::call_once
             at /home/runner/.rustup/toolchains/nightly-2026-08-21-x86_64-unknown-linux-gnu/lib/rustlib/src/rust/library/core/src/ops/function.rs:250:5
  16: <fn() -> core::result::Result<(), alloc::string::String> as core::ops::function::FnOnce<()>>::call_once
             at /home/runner/.rustup/toolchains/nightly-2026-08-21-x86_64-unknown-linux-gnu/lib/rustlib/src/rust/library/core/src/ops/function.rs:250:5
note: Some details are omitted, run with `RUST_BACKTRACE=full` for a verbose backtrace.
test playback::kani_concrete_playback_c20_json__kmer3__l3_4_from_text_trace ... FAILED

failures:

failures:
    playback::kani_concrete_playback_c20_json__kmer3__l3_4_from_text_trace

test result: FAILED. 0 passed; 1 failed; 0 ignored; 0 measured; 0 filtered out; finished in 0.71s

error: test failed, to rerun pass `--lib`
error: /root/.kani/kani-0.68.0/toolchain/bin/cargo exited with status exit status: 101

*/
